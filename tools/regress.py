#!/usr/bin/env python3
"""tools/regress.py [names...] - (re)build regressions/<PID>/<name>.json for stored seeded changes: apply the patch to a scratch
worktree, run the detecting check against it, keep the first counterexample that fails there and holds on /repo when replayed alone."""
import json, os, shutil, subprocess, sys
HERE = os.path.dirname(os.path.dirname(os.path.abspath(__file__)))


def sh(cmd):
    return subprocess.run(cmd, shell=True, capture_output=True, text=True)


names = sys.argv[1:] or sorted(os.listdir(os.path.join(HERE, "seeded")))
for name in names:
    d = os.path.join(HERE, "seeded", name)
    meta = json.load(open(os.path.join(d, "meta.json")))
    checks = meta.get("detected_by") or [meta["property"]]
    wt = "/tmp/rg/" + name
    sh("rm -rf %s; git -C /repo worktree prune" % wt)
    r = sh("git -C /repo worktree add -q --detach %s HEAD && git -C %s apply %s/patch.diff" % (wt, wt, d))
    if r.returncode:
        print(name, "cannot build scratch tree:", r.stderr[:200])
        continue
    done = False
    for c in checks:
        if os.path.exists(os.path.join(HERE, "regressions", c, name + ".json")):
            done = True
            break
        shutil.rmtree("/tmp/verif-scratch-out", ignore_errors=True)
        out = sh("cd %s && VERIF_REPO=%s VERIF_NO_EVIDENCE=1 ./check %s --tier quick" % (HERE, wt, c))
        for l in out.stdout.splitlines():
            if l.startswith("VIOLATION") and "replay=" in l:
                src = os.path.join("/tmp/verif-scratch-out", l.split("replay=")[1].strip())
                if not os.path.exists(src):
                    continue
                bad = sh("cd %s && VERIF_REPO=%s ./check %s --replay %s" % (HERE, wt, c, src))
                good = sh("cd %s && ./check %s --replay %s" % (HERE, c, src))
                if bad.returncode == 1 and good.returncode == 0:
                    os.makedirs(os.path.join(HERE, "regressions", c), exist_ok=True)
                    shutil.copy(src, os.path.join(HERE, "regressions", c, name + ".json"))
                    done = True
                    break
        if done:
            break
    print(name, "saved" if done else "no replayable counterexample (state- or allocation-dependent)")
    sh("git -C /repo worktree remove --force %s" % wt)
