#!/bin/sh
# tools/cover.sh [tier] [checks...]: run checks with the line-coverage tap and report which lines of pysnark/ no check executed.
# Diagnostic only (not a registered check): output goes to stdout, scratch data to a mktemp directory that is removed.
TIER=${1:-quick}; shift
CHECKS=${*:-C01 C02 C03 C04 C05 C06 C07 C08 C09 C10 C11 C12 C13 C14 C15 C16 C17 C18 C19 C20}
cd "$(dirname "$0")/.."
D=$(mktemp -d /tmp/verif-cover.XXXXXX)
for c in $CHECKS; do
  mkdir -p $D/$c
  VERIF_COVER_DIR=$D/$c VERIF_NO_EVIDENCE=1 VERIF_EXTRA_PATH=$(pwd)/harness/covsite ./check $c --tier $TIER > $D/$c.out 2>&1
  echo "$c rc=$? $(ls $D/$c | wc -l) dumps" >&2
done
/venv/bin/python tools/cover_report.py $D $CHECKS
rm -rf "$D"
