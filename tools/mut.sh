#!/bin/sh
# tools/mut.sh <file-relative-to-repo> <python-expr-old> <new> -- <check args...>
# scratch copy of /repo under /tmp/mut.$$, one textual replacement, run ./check against it, remove it.
F="$1"; OLD="$2"; NEW="$3"; shift 3; [ "$1" = "--" ] && shift
D=/tmp/mut.$$
rm -rf $D; mkdir -p $D; cp -r /repo/pysnark $D/pysnark
/venv/bin/python - "$D/$F" "$OLD" "$NEW" <<'PY' || { rm -rf $D; exit 3; }
import sys
p,old,new=sys.argv[1:4]
s=open(p,newline='').read()
if s.count(old)!=1:
    print("mutation anchor count =",s.count(old)); sys.exit(1)
open(p,'w',newline='').write(s.replace(old,new))
PY
VERIF_REPO=$D VERIF_NO_EVIDENCE=1 "$(dirname "$0")/../check" "$@"; rc=$?
rm -rf $D
echo "mutant exit=$rc"
exit 0
