#!/usr/bin/env python3
"""tools/mutsweep.py - systematic sensitivity sweep: syntactic mutants of pysnark/ that still pass the pinned
test suite are run against the quick checks (VERIF_REPO=<scratch copy>); survivors are listed for triage.

Diagnostic only (not a registered check): the registered checks decide properties, this measures what they notice.
Mutation operators work on source text at ast positions (so CRLF files stay byte-exact elsewhere):
  cmp   < <= > >= == != swapped to the neighbouring operator
  bin   + - * // % << >> & | swapped
  int   integer literal n -> n+1 / n-1 (0 -> 1, 1 -> 0 and 2)
  bool  and <-> or
  not   `not x` -> `x`; if/while/ternary test -> not (test)
  del   expression statement that is a call -> pass
  aug   += -= swapped

usage: tools/mutsweep.py [--seed N] [--per-file K] [--jobs J] [--out FILE] [file ...]
"""
import ast, os, sys, random, shutil, subprocess, json, argparse, hashlib, concurrent.futures as cf

HERE = os.path.dirname(os.path.dirname(os.path.abspath(__file__)))
REPO = "/repo"
SCRATCH = "/tmp/mutsweep"

# file -> checks to run, most relevant first
FILES = {
    "pysnark/runtime.py": ["C05", "C02", "C03", "C01", "C04", "C06", "C07", "C08", "C16", "C17", "C18", "C19", "C09", "C15", "C14", "C20"],
    "pysnark/boolean.py": ["C05", "C02", "C03", "C04", "C01", "C06", "C07", "C17", "C14"],
    "pysnark/fixedpoint.py": ["C14", "C02", "C03", "C04", "C01", "C06", "C07", "C17", "C09"],
    "pysnark/branching.py": ["C09", "C08", "C07", "C06", "C01", "C04"],
    "pysnark/array.py": ["C15", "C06", "C01", "C02", "C03", "C04"],
    "pysnark/pack.py": ["C16", "C07", "C01", "C06"],
    "pysnark/linalg.py": ["C06", "C01", "C15"],
    "pysnark/poseidon_hash.py": ["C20", "C07", "C06", "C01"],
    "pysnark/ggh_hash.py": ["C20", "C07", "C06", "C01"],
    "pysnark/snarkjsbackend.py": ["C10", "C13", "C18", "C19"],
    "pysnark/zkinterface/backend.py": ["C11", "C13", "C18", "C19"],
    "pysnark/qaptools/backend.py": ["C12", "C13", "C18", "C19"],
    "pysnark/qaptools/qapsplit.py": ["C12"],
    "pysnark/nobackend.py": ["C19", "C13", "C18"],
    "pysnark/atexitmaybe.py": ["C18"],
    "pysnark/libsnark/tosnarkjsgg.py": ["C19"],
}

CMP = {ast.Lt: ("<", "<="), ast.LtE: ("<=", "<"), ast.Gt: (">", ">="), ast.GtE: (">=", ">"), ast.Eq: ("==", "!="), ast.NotEq: ("!=", "==")}
BIN = {ast.Add: ("+", "-"), ast.Sub: ("-", "+"), ast.Mult: ("*", "+"), ast.FloorDiv: ("//", "*"), ast.Mod: ("%", "//"),
       ast.LShift: ("<<", ">>"), ast.RShift: (">>", "<<"), ast.BitAnd: ("&", "|"), ast.BitOr: ("|", "&"), ast.Pow: ("**", "*")}


def offsets(src):
    """line/col (utf8 bytes) -> index in src (str); files are ascii in practice."""
    starts = [0]
    for i, ch in enumerate(src):
        if ch == "\n":
            starts.append(i + 1)
    return lambda ln, col: starts[ln - 1] + col


def mutants(src):
    tree = ast.parse(src)
    at = offsets(src)
    out = []  # (kind, lineno, start, end, replacement)

    def span(n):
        return at(n.lineno, n.col_offset), at(n.end_lineno, n.end_col_offset)

    def between(a_end, b_start, tok, new, kind, ln):
        seg = src[a_end:b_start]
        k = seg.find(tok)
        if k >= 0:
            out.append((kind, ln, a_end + k, a_end + k + len(tok), new))

    docstrings = set()
    for n in ast.walk(tree):
        if isinstance(n, (ast.FunctionDef, ast.ClassDef, ast.Module)) and n.body and isinstance(n.body[0], ast.Expr) \
                and isinstance(n.body[0].value, ast.Constant) and isinstance(n.body[0].value.value, str):
            docstrings.add(id(n.body[0]))
    for n in ast.walk(tree):
        if isinstance(n, ast.Compare):
            left = n.left
            for op, right in zip(n.ops, n.comparators):
                if type(op) in CMP:
                    tok, new = CMP[type(op)]
                    between(span(left)[1], span(right)[0], tok, new, "cmp", n.lineno)
                left = right
        elif isinstance(n, ast.BinOp) and type(n.op) in BIN:
            if isinstance(n.op, ast.Mod) and isinstance(n.left, ast.Constant) and isinstance(n.left.value, str):
                continue
            tok, new = BIN[type(n.op)]
            between(span(n.left)[1], span(n.right)[0], tok, new, "bin", n.lineno)
        elif isinstance(n, ast.AugAssign) and type(n.op) in (ast.Add, ast.Sub):
            tok, new = ("+=", "-=") if isinstance(n.op, ast.Add) else ("-=", "+=")
            between(span(n.target)[1], span(n.value)[0], tok, new, "aug", n.lineno)
        elif isinstance(n, ast.Constant) and type(n.value) is int:
            s, e = span(n)
            if src[s:e].isdigit():
                v = n.value
                for w in ({0: [1], 1: [0, 2]}.get(v, [v + 1, v - 1])):
                    out.append(("int", n.lineno, s, e, str(w)))
        elif isinstance(n, ast.BoolOp):
            tok, new = ("and", "or") if isinstance(n.op, ast.And) else ("or", "and")
            for a, b in zip(n.values, n.values[1:]):
                between(span(a)[1], span(b)[0], tok, new, "bool", n.lineno)
        elif isinstance(n, ast.UnaryOp) and isinstance(n.op, ast.Not):
            s, e = span(n)
            os_, oe = span(n.operand)
            out.append(("not", n.lineno, s, e, "(" + src[os_:oe] + ")"))
        if isinstance(n, (ast.If, ast.While, ast.IfExp)):
            s, e = span(n.test)
            out.append(("neg", n.lineno, s, e, "(not (" + src[s:e] + "))"))
        if isinstance(n, ast.Expr) and isinstance(n.value, ast.Call) and id(n) not in docstrings:
            s, e = span(n)
            out.append(("del", n.lineno, s, e, "pass"))
    out.sort(key=lambda m: (m[2], m[3], m[4]))
    return out


def sh(cmd, env=None, timeout=1800):
    e = dict(os.environ)
    e.update(env or {})
    try:
        p = subprocess.run(cmd, shell=True, stdout=subprocess.PIPE, stderr=subprocess.STDOUT, env=e, timeout=timeout)
        return p.returncode, p.stdout.decode("utf8", "replace")
    except subprocess.TimeoutExpired:
        return 124, "timeout"


def run_one(job):
    idx, rel, m, checks = job
    kind, ln, s, e, new = m
    d = os.path.join(SCRATCH, "m%05d" % idx)
    shutil.rmtree(d, ignore_errors=True)
    shutil.copytree(REPO, d, ignore=shutil.ignore_patterns(".git", "docs", "notebooks", "*.r1cs", "*.wtns"))
    p = os.path.join(d, rel)
    src = open(p, newline="").read()
    old = src[s:e]
    open(p, "w", newline="").write(src[:s] + new + src[e:])
    line = src[src.rfind("\n", 0, s) + 1: src.find("\n", e) if src.find("\n", e) >= 0 else len(src)].strip()
    res = {"idx": idx, "file": rel, "kind": kind, "line": ln, "old": old[:80], "new": new[:80], "text": line[:160]}
    try:
        rc, out = sh("cd %s && /venv/bin/python -m pytest -q -p no:cacheprovider --timeout=300 -x 2>&1 | tail -3" % d, timeout=900)
        last = out.strip().splitlines()[-2:] if out.strip() else []
        if not any(" passed" in l and "failed" not in l and "error" not in l for l in last):
            res["status"] = "killed-by-tests"
            return res
        for c in checks:
            outd = os.path.join(d, "_out")
            rc, out = sh("cd %s && ./check %s --tier quick" % (HERE, c),
                         env={"VERIF_REPO": d, "VERIF_NO_EVIDENCE": "1", "VERIF_OUT": outd, "VERIF_SEED": "1"})
            if rc == 1 and "VIOLATION" in out:
                res["status"] = "detected"
                res["by"] = c
                return res
            if rc not in (0, 1):
                res.setdefault("odd", []).append([c, rc, out[-300:]])
        res["status"] = "survived"
        res["ran"] = checks
        return res
    finally:
        shutil.rmtree(d, ignore_errors=True)


def main():
    ap = argparse.ArgumentParser()
    ap.add_argument("--seed", type=int, default=1)
    ap.add_argument("--per-file", type=int, default=20)
    ap.add_argument("--jobs", type=int, default=2)
    ap.add_argument("--out", default="/tmp/mutsweep-report.jsonl")
    ap.add_argument("--list", action="store_true")
    ap.add_argument("files", nargs="*")
    a = ap.parse_args()
    files = a.files or list(FILES)
    rnd = random.Random(a.seed)
    jobs = []
    idx = 0
    for rel in files:
        src = open(os.path.join(REPO, rel), newline="").read()
        ms = mutants(src)
        if a.list:
            print(rel, len(ms))
            continue
        pick = ms if len(ms) <= a.per_file else rnd.sample(ms, a.per_file)
        for m in pick:
            jobs.append((idx, rel, m, FILES.get(rel, ["C01"])))
            idx += 1
    if a.list:
        return
    os.makedirs(SCRATCH, exist_ok=True)
    tally = {}
    with open(a.out, "a") as f, cf.ThreadPoolExecutor(a.jobs) as ex:
        for r in ex.map(run_one, jobs):
            tally[r["status"]] = tally.get(r["status"], 0) + 1
            f.write(json.dumps(r) + "\n")
            f.flush()
            print(r["status"], r.get("by", ""), r["file"], r["line"], r["kind"], repr(r["old"]), "->", repr(r["new"]), "|", r["text"], flush=True)
    print("TALLY", tally)
    shutil.rmtree(SCRATCH, ignore_errors=True)


if __name__ == "__main__":
    main()
