#!/usr/bin/env python3
"""Regenerates MANIFEST.json from the table below (run from /verif)."""
import json, os

HERE = os.path.dirname(os.path.dirname(os.path.abspath(__file__)))
TB = ("Trusted base: CPython, Hypothesis (seeded generator/shrinker), the recording backend "
      "(harness/recorder.py), the R1CS evaluator/search (harness/r1cs.py)")

CHECKS = {
 "C01": dict(cat="exploration", tech="property-based testing: generated API programs, R1CS evaluation oracle on a recording backend",
   text="Generated straight-line programs over the whole public API are traced on a recording backend; every emitted constraint is evaluated on the recorded witness modulo the field prime after every statement. Exploration: evidence over the generated programs/configurations, not a proof.",
   note=TB + "; hash gadgets use the toy parameter set here.", ref="4 (C01)"),
 "C04": dict(cat="exploration", tech="property-based testing: generated programs and an operation x operand-kind x mode cell sweep; wire-expression evaluation oracle",
   text="After every statement of generated programs (error checking on/off, nested guards of both values, invalid operands) and for every cell of an operation x operand-type x mode sweep, every LinComb reachable from every returned object is evaluated on the recorded witness and compared with the reported value modulo p. Exploration over generated cases.",
   note=TB + ".", ref="4 (C04)"),
 "C05": dict(cat="exploration", tech="differential property-based testing against a plain-Python reference; exhaustive operand grids at small bitlength",
   text="Every integer/boolean operator, for every operand-type combination, is run on complete operand squares [-2^b-2,2^b+2]^2 at small bitlength and on random boundary-biased operands at bitlength 2..32, and compared with Python's result: a returned value must equal Python's (mod p), and inside the documented no-raise domain the call must return. Grids are exhaustive for their (bitlength, field); otherwise exploration.",
   note=TB + "; the reference semantics in harness/refsem.py (width-relative model for ~ on integers; logical operators on 0/1 only).", ref="4 (C05), 3"),
 "C06": dict(cat="exploration", tech="metamorphic property-based testing: canonical trace equality across input vectors, modes and guard values",
   text="For every operation cell and for generated programs, runs that differ only in secret input values, in ignore_errors mode, or in the value of enclosing guards must yield identical canonical traces (variable kinds, constraints mod p, result wire expressions). Exploration over generated programs and a complete sweep of small operand pools.",
   note=TB + "; plain constants are treated as part of the program.", ref="4 (C06)"),
 "C02": dict(cat="exploration", tech="property-based testing with witness-space search as oracle: complete enumeration of satisfying assignments in small prime fields",
   text="For every value-returning operator x operand-kind combination x complete small operand pools, and for generated 2-5 operation compositions, the recorded circuit is searched for ANY satisfying assignment (operands pinned, all auxiliary witnesses free) whose result differs from the honest one. In small prime fields the enumeration is complete for the circuit instance (a per-instance proof against the adversarial prover); real-field instances use a heuristic adversary. Counterexamples explained by the two listed findings (K1, K2) are excluded only if they have exactly the shape those findings allow and disappear when the variables they leave free are pinned.",
   note=TB + "; transfer from small fields to the 254-bit fields is an argument (value-independent circuit shape, C06), not decided here.", ref="4 (C02), 5"),
 "C03": dict(cat="exploration", tech="property-based testing with witness-space search: satisfiable set vs accepted set vs relation, complete over small fields",
   text="For every assertion kind and declared type, every width parameter and two (bitlength, small prime) pairs [thorough: five], the circuit of an accepted call is captured, the operand wires are freed and for every operand value of the window (all of F_p for one operand) the auxiliary witness space is searched completely. The satisfiable set must contain no value for which the relation is false, must contain every value the call accepts, and must equal the accepted set (same bounds, same width). The error-path circuit (ignore_errors) is compared with the captured one. Complete for each (kind, parameter, field) instance enumerated; exploration across kinds/fields.",
   note=TB + "; small prime fields stand in for the 254-bit fields (argument via C06, not decided).", ref="4 (C03)"),
 "C07": dict(cat="exploration", tech="property-based testing: guard-mode cell sweep, lazy-selection differential, satisfiable-set search under guards, generated guarded bodies",
   text="Every operation cell is run unguarded and under all guard nestings up to depth 2 with operand pools that include invalid values: a false level must suppress every value-caused exception and leave a satisfied, value-consistent trace; all-true guards must reproduce the unguarded values or exception type. Lazy if_then_else forms are compared with eager evaluation and, in a small field, the selected value is shown unique (unit propagation; sampled search otherwise). Assertion kinds are searched under guarded(1) (same satisfiable set as unguarded) and guarded(0) (everything satisfiable). Exploration; complete only for the enumerated small-field instances.",
   note=TB + "; 'value-caused' is decided by the same call succeeding unguarded for other secret operand values.", ref="4 (C07)"),
 "C15": dict(cat="exploration", tech="model-based property testing against a list-of-lists model; complete small-field search over the index wire",
   text="Generated read/write histories on 1-D and 2-D arrays with secret/public, in-range/out-of-range indices are compared step by step with a Python list model, traces are compared across index values, and for lengths 1-4 [thorough 1-6] the read and write circuits are searched for every index value of F_p: unsatisfiable outside the bounds, uniquely the model's result inside. Exploration; search instances are complete.",
   note=TB + "; Python list semantics as reference.", ref="4 (C15)"),
 "C16": dict(cat="exploration", tech="exhaustive width/value grids, witness-space search for the enforced width, round-trip property testing of generated packer schemas",
   text="All (bitlength, width, value) triples at small sizes are enumerated for to_bits/from_bits round trip and rejection; the enforced width of to_bits(n) and assert_positive(n) is decided by complete search over F_p for n != bitlength; packer schemas from a recursive strategy are round-tripped with plain and secret leaves at bit offsets. Grids exhaustive; schemas exploration.",
   note=TB + "; packer domain: moduli >= 2, non-empty lists, times >= 1.", ref="4 (C16)"),
 "C09": dict(cat="exploration", tech="differential property-based testing: generated structured programs rendered as oblivious source and as a native-Python twin",
   text="Generated programs with nested if/elif/else, bounded while with break conditions, for over _range with a secret bound, and lazy selections are rendered to source text in the documented one-statement-per-line idiom and executed on the recording backend; final variables are compared with a native-control-flow twin, the constraints are evaluated, guard state and block stack are checked, and the canonical trace is compared with that of a second input vector taking other branches. Exploration over generated programs.",
   note=TB + "; the native twin rendered from the same AST is the reference.", ref="4 (C09)"),
 "C08": dict(cat="exploration", tech="stateful (rule-based state machine) property testing with a model stack of guard conditions",
   text="A Hypothesis rule-based machine drives add_guard/restore_guard, top-level ignore_errors, generated trees of nested guarded()/lazy if_then_else calls with sentinel exceptions raised and caught at chosen levels, if/elif/else and while block contexts, and invalid entries; after every step the three module globals are compared with a model (conjunction of active conditions, suppression iff a condition is 0, meaning of constants) and with the identical objects saved before each region. Exploration over generated histories.",
   note=TB + "; model of the documented guard semantics.", ref="4 (C08)"),
 "C17": dict(cat="exploration", tech="property-based testing of generated argument/result structures against the recorder's ordered public-variable list",
   text="Sequences of 1-4 @snark calls with nested list/tuple/dict arguments of int/float/bool/pass-through leaves and generated bodies returning nested mixed structures: the public variables created per call must be exactly the numeric argument leaves then the secret results, in traversal order, each output wire uniquely pinned by the constraints (single-wire search), the returned structure equal to the undecorated body's, and keyword calls refused without a trace. Exploration.",
   note=TB + "; bodies limited to operations on which Python floats and fixed point agree exactly.", ref="4 (C17)"),
 "C14": dict(cat="exploration", tech="differential property-based testing against a Fraction reference; exhaustive small grids over all operand type pairs",
   text="Every fixed-point operator, for every operand type pair (fixed-point, secret int, secret bool, int, float; both orders), is run on complete grids of scaled values at resolution 3 [thorough: four (resolution, bitlength, field) grids] and on random dyadic operands over resolutions 0..12 and compared with exact Fraction arithmetic on the represented numbers; returned values must agree, and inside the documented domain the call must return. Grids exhaustive for their configuration; otherwise exploration.",
   note=TB + "; Fraction reference of the documented semantics (harness/checks/c14.py).", ref="4 (C14), 3"),
 "C10": dict(cat="exploration", tech="property-based testing: generated programs and backend-level traces, independent decoder of the iden3 formats, comparison with a recorder trace",
   text="Generated IR programs (replayed at the backend interface) and directly generated interface-level traces with adversarial scalars and witness values drive the real snarkjs backend next to the recorder; both files written by prove() are read by an independent decoder that re-checks every declared length, and the decoded wires, values and constraints are compared with the recorder's under the documented numbering. Exploration.",
   note=TB + "; harness/decoders/iden3.py stands in for snarkjs' parser (not available offline); nLabels / label map not judged.", ref="4 (C10)"),
 "C11": dict(cat="exploration", tech="property-based testing per field configuration: own FlatBuffers reader, recorder comparison, metamorphic re-run with other private values",
   text="As C10 for the three zkinterface configurations through their own modules: message sequence per file, header ids/values/free id/field maximum, witness ids, canonical coefficients, decoded-vs-recorded constraints and satisfaction, and byte-identity of circuit.zkif when only private values change. Exploration.",
   note=TB + "; the flatbuffers package is replaced by a stand-in builder (harness/shims/fb) and the consumers by harness/decoders/fbreader.py.", ref="4 (C11), 2.5"),
 "C13": dict(cat="exploration", tech="property-based testing of expression trees on each backend's linear-combination class with a representation-level evaluator; number-theoretic checks of modulus and inverse",
   text="Random expression trees with adversarial scalars are built on each proof-producing backend's own LC class (snarkjs, three zkinterface configurations, qaptools) and evaluated through the representation; operands are snapshotted around every operation; get_modulus() is compared with the group order recomputed from the curve definition and tested for primality; fieldinverse is checked on non-zero, negative, unreduced and zero-congruent arguments. Exploration; libsnark's native class is not covered.",
   note=TB + "; libsnark is not installed and cannot be: its C++ LC class is outside this check.", ref="4 (C13)"),
 "C12": dict(cat="exploration", tech="property-based testing with one fresh interpreter per generated program; independent parser/evaluator of the qaptools files; interface-level trace logged in the child",
   text="Generated programs with @subqap functions (multiple and nested calls, list/tuple arguments, optional conflicting bodies under one name, negative/large values) run on the real qaptools backend with failing stubs for the external tools; the equation, wire, I/O, schedule and per-function files (the latter as written by the backend's own proving step) are parsed independently and checked for satisfaction, public-value links, completeness and purity of every per-function equation set against the logged trace, digest consistency / reported inconsistency, and glue blocks. Exploration.",
   note=TB + "; qaptools binaries are not available offline (stubs exit 1), so only pysnark's own splitting step runs.", ref="4 (C12), 2.5"),
 "C18": dict(cat="fault_enumeration", tech="fault enumeration over (termination mode x crash position x backend x autoprove) with one fresh interpreter per case; independent decoders for artefact content",
   text="Every way a script can terminate (19 modes) is inserted at every enumerated statement position for each file-writing backend with automatic proving on and off, each in its own interpreter with a call counter around backend.prove. Exit status, prove count, presence and decoded content of the artefacts, and exit-hook tracebacks are compared with a model of plain Python's behaviour. The (mode, position, N, backend, autoprove) space is finite and enumerated completely for the stated N.",
   note="Trusted base: CPython exit semantics as tabulated in harness/checks/c18.py, the decoders, the flatbuffers stand-in and qaptools stubs.", ref="4 (C18)"),
 "C19": dict(cat="exploration", tech="complete enumeration of the finite configuration space, one fresh interpreter per configuration, against a reference model of the three selection stages",
   text="Every combination of PYSNARK_BACKEND value (unset, empty, 8 known, 5 unknown), 0-2 pre-imported backend modules in either order and loadability of libsnark/qaptools/flatbuffers (stand-ins) - 3420 configurations - runs in its own interpreter; the selected backend, the loud failure or the unknown-name report must match the model, and backend_name / module / field order / Groth16 switch / the eight interface functions must be mutually consistent. The space is enumerated completely in both tiers.",
   note="Trusted base: the reference model in harness/checks/c19.py, stand-ins that make backends loadable or not; the IPython branch is not exercised.", ref="4 (C19)"),
 "C20": dict(cat="exploration", tech="differential property-based testing against independent plain-integer Poseidon and subset-sum references, published vectors, metamorphic padding relations; one interpreter per backend-selection path",
   text="With the recorder posing as each supported backend/field, generated input vectors (0-3 blocks, values across the field, int/bool/fixed-point mixes) are hashed by the gadgets and by independent plain-integer implementations; published vectors anchor both; constraints are evaluated and counted per length; padding relations are checked. 33 selection paths (environment, pre-import, auto-detection) each assert in a fresh interpreter that the bound parameter set is the one registered for the backend in use, or that the import raises. Exploration.",
   note=TB + "; the constants file is data for the reference, the two published vectors are the external anchor.", ref="4 (C20)"),
}
PENDING = {}

def main():
    props = [json.loads(l) for l in open(os.path.join(HERE, "properties.jsonl"))]
    checks, na = [], []
    for p in props:
        pid = p["id"]
        if pid in CHECKS:
            c = CHECKS[pid]
            checks.append({
                "property_id": pid,
                "quick_cmd": "./check %s --tier quick" % pid,
                "thorough_cmd": "./check %s --tier thorough" % pid,
                "evidence_file": "evidence/%s.json" % pid,
                "replay_cmd_template": "./check %s --replay {path}" % pid,
                "engine": "harness",
                "level_claimed": {"category": c["cat"], "text": c["text"], "design_ref": "DESIGN.md section " + c["ref"]},
                "level_note": c["note"],
                "technique": c["tech"],
            })
        else:
            na.append({"property_id": pid, "reason": PENDING.get(pid, "check not built yet (work in progress; planned per DESIGN.md section 4)")})
    man = {
        "version": 1,
        "setup_cmd": "./setup.sh",
        "hooks": {
            "guard": "MEILOF_PYSNARK_VERIF",
            "enable": "no source hooks: the recording backend enters through pysnark's own backend registry (sys.modules pre-seed); nothing to enable",
            "baseline_off_cmd": "cd /repo && env -u MEILOF_PYSNARK_VERIF /venv/bin/python -m pytest -ra -q -p no:cacheprovider --timeout=900 --continue-on-collection-errors",
            "source_commits": [],
            "add_only": True,
        },
        "engines": [
            {"name": "harness", "path": "harness/", "serves_properties": sorted(CHECKS),
             "kind_free_text": "Hypothesis-driven generators + recording backend + R1CS evaluation / witness-space search + independent file decoders; ./check <ID> runs one property"},
        ],
        "checks": checks,
        "notes": "All checks run /repo's working tree in place (pure Python). VERIF_SEED selects the Hypothesis seed. Exit 2 = harness error (never a VIOLATION).",
        "not_applicable": na,
    }
    json.dump(man, open(os.path.join(HERE, "MANIFEST.json"), "w"), indent=1)
    print("MANIFEST.json: %d checks, %d not claimed" % (len(checks), len(na)))

if __name__ == "__main__":
    main()
