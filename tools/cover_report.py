"""merge coverage dumps; print per-file executable/covered line counts and the uncovered line ranges"""
import ast, json, os, sys
d, checks = sys.argv[1], sys.argv[2:]
REPO = os.environ.get("VERIF_REPO", "/repo")
cov = {}
per = {}
for c in checks:
    for f in os.listdir(os.path.join(d, c)):
        for fn, ln in json.load(open(os.path.join(d, c, f))):
            cov.setdefault(fn, set()).add(ln)
            per.setdefault(fn, {}).setdefault(ln, set()).add(c)


def executable_lines(path):
    src = open(path, encoding="utf-8", errors="replace").read()
    tree = ast.parse(src)
    lines = set()
    for node in ast.walk(tree):
        if isinstance(node, ast.stmt) and not isinstance(node, (ast.FunctionDef, ast.ClassDef, ast.AsyncFunctionDef)):
            if isinstance(node, ast.Expr) and isinstance(node.value, ast.Constant) and isinstance(node.value.value, str):
                continue    # docstring
            lines.add(node.lineno)
    return lines, src.splitlines()


tot_e = tot_c = 0
for root, _, files in sorted(os.walk(os.path.join(REPO, "pysnark"))):
    for f in sorted(files):
        if not f.endswith(".py"):
            continue
        path = os.path.join(root, f)
        rel = os.path.relpath(path, REPO)
        if "/zkinterface/" in rel and f[0].isupper():
            continue        # generated FlatBuffers classes
        ex, src = executable_lines(path)
        got = cov.get(rel, set()) & ex
        tot_e += len(ex); tot_c += len(got)
        miss = sorted(ex - got)
        print("%-45s %4d/%4d" % (rel, len(got), len(ex)))
        if miss and "-v" not in os.environ.get("COVER_FLAGS", "-v"):
            continue
        for ln in miss:
            print("      %4d  %s" % (ln, src[ln - 1].strip()[:110]))
print("TOTAL %d/%d" % (tot_c, tot_e))
