#!/usr/bin/env python3
"""tools/addfinding.py <replay.json> "<what fails>"  -- registers a known finding (manual step, never at check run time)"""
import json, os, sys
HERE = os.path.dirname(os.path.dirname(os.path.abspath(__file__)))
doc = json.load(open(sys.argv[1]))
pid, key = doc["property"], doc["key"]
assert key, "replay has no bucket key"
os.makedirs(os.path.join(HERE, "findings"), exist_ok=True)
json.dump(doc, open(os.path.join(HERE, "findings", "%s-%s.json" % (pid, key)), "w"), indent=1)
what = sys.argv[2] if len(sys.argv) > 2 else doc["message"]
line = "finding: property=%s key=%s :: %s\n" % (pid, key, what)
txt = open(os.path.join(HERE, "known_findings.txt")).read()
if ("key=%s " % key) not in txt:
    open(os.path.join(HERE, "known_findings.txt"), "a").write(line)
print(line, end="")
