#!/usr/bin/env python3
"""tools/seeded.py <ID> <name> [checks...]
Confirms a seeded change left by a sub-agent in the scratch worktree /tmp/wt/<ID> (patch applied there):
test suite passes with it, demo fails with it and passes without it; then runs the given checks (default: the
property's own check) against that worktree (VERIF_REPO) and stores patch, demo and meta.json in seeded/<name>/."""
import json, os, shutil, subprocess, sys

HERE = os.path.dirname(os.path.dirname(os.path.abspath(__file__)))
pid, name = sys.argv[1], sys.argv[2]
checks = sys.argv[3:] or [pid]
wt = "/tmp/wt/" + pid


def sh(cmd, **kw):
    return subprocess.run(cmd, shell=True, capture_output=True, text=True, **kw)


meta = {"property": pid, "worktree_base": sh("git -C %s rev-parse HEAD" % wt).stdout.strip()}
patch = sh("git -C %s diff -- pysnark" % wt).stdout
assert patch.strip(), "no change in worktree"
t = sh("cd %s && /venv/bin/python -m pytest -q -p no:cacheprovider 2>&1 | grep -E 'passed|failed|error' | tail -1" % wt)
meta["suite_with_change"] = t.stdout.strip()
envp = "PYTHONPATH=%s" % wt
d1 = sh("cd %s && %s /venv/bin/python demo.py" % (wt, envp))
meta["demo_with_change_exit"] = d1.returncode
meta["demo_with_change_output"] = (d1.stdout + d1.stderr)[-600:]
# NOT git stash: the stash is shared by all worktrees of a repository, and concurrent agents use it too
sh("git -C %s diff -- pysnark > /tmp/seeded.%s.diff" % (wt, name))     # bytes as they are (CRLF files)
sh("git -C %s checkout -- pysnark" % wt)
d0 = sh("cd %s && %s /venv/bin/python demo.py" % (wt, envp))
ap = sh("git -C %s apply /tmp/seeded.%s.diff" % (wt, name))
assert ap.returncode == 0, "could not re-apply the patch: " + ap.stderr
meta["demo_without_change_exit"] = d0.returncode
assert sh("git -C %s diff -- pysnark" % wt).stdout == patch, "re-applying the patch did not restore the change"
meta["confirmed"] = ("passed" in meta["suite_with_change"] and "failed" not in meta["suite_with_change"]
                     and d1.returncode != 0 and d0.returncode == 0)
res = {}
for c in checks:
    r = sh("cd %s && VERIF_REPO=%s VERIF_NO_EVIDENCE=1 ./check %s --tier quick" % (HERE, wt, c))
    lines = [l for l in r.stdout.splitlines() if l.startswith("VIOLATION") or l.startswith("  ")]
    res[c] = {"exit": r.returncode, "first_violation": " | ".join(lines[:2])[:400]}
    # keep the first replayable counterexample as a regression case (replay tier of saved inputs), provided that it
    # still fails on the seeded tree and passes on the unchanged tree when replayed on its own
    for l in r.stdout.splitlines():
        if l.startswith("VIOLATION") and "replay=" in l:
            src = os.path.join("/tmp/verif-scratch-out", l.split("replay=")[1].strip())
            if not os.path.exists(src):
                continue
            bad = sh("cd %s && VERIF_REPO=%s ./check %s --replay %s" % (HERE, wt, c, src))
            good = sh("cd %s && ./check %s --replay %s" % (HERE, c, src))
            if bad.returncode == 1 and good.returncode == 0:
                dst = os.path.join(HERE, "regressions", c)
                os.makedirs(dst, exist_ok=True)
                shutil.copy(src, os.path.join(dst, name + ".json"))
                res[c]["regression_case"] = "regressions/%s/%s.json" % (c, name)
                break
meta["checks_quick"] = res
meta["detected_by"] = [c for c, v in res.items() if v["exit"] == 1]
out = os.path.join(HERE, "seeded", name)
os.makedirs(out, exist_ok=True)
shutil.copy("/tmp/seeded.%s.diff" % name, os.path.join(out, "patch.diff"))
os.remove("/tmp/seeded.%s.diff" % name)
shutil.copy(os.path.join(wt, "demo.py"), os.path.join(out, "demo.py"))
meta["how_to_run"] = ("git -C /repo apply /verif/seeded/%s/patch.diff; ./check <ID>; git -C /repo checkout -- . ; demo: "
                      "PYTHONPATH=<tree with the patch> /venv/bin/python demo.py (exit 1 with the change, 0 without; the demo was "
                      "written for the worktree path %s)" % (name, wt))
json.dump(meta, open(os.path.join(out, "meta.json"), "w"), indent=1)
print(json.dumps({k: meta[k] for k in ("confirmed", "suite_with_change", "demo_with_change_exit", "demo_without_change_exit", "detected_by")}, indent=1))
for c, v in res.items():
    print(c, v["exit"], v["first_violation"][:300])
