#!/bin/sh
# run every registered quick (or thorough) check once (or only those named after the tier); print one line each
TIER=${1:-quick}
[ $# -gt 0 ] && shift
LIST=${*:-C01 C02 C03 C04 C05 C06 C07 C08 C09 C10 C11 C12 C13 C14 C15 C16 C17 C18 C19 C20}
OUT=$(mktemp -d /tmp/runall.XXXXXX)
cd "$(dirname "$0")/.."
for c in $LIST; do
  ./check $c --tier $TIER > $OUT/$c.out 2>&1; rc=$?
  echo "rc=$rc $(grep -E "^$c tier" $OUT/$c.out | tail -1) known=$(grep -c KNOWN-FINDING $OUT/$c.out)"
  if [ $rc -ne 0 ]; then tail -40 $OUT/$c.out | cut -c1-600; fi
done
rm -rf "$OUT"
