#!/bin/sh
# Offline setup: the checks need hypothesis in /venv (pre-installed here); install from the
# local wheelhouse if it is missing. Nothing is fetched from a network.
PY=/venv/bin/python
if ! $PY -c "import hypothesis" 2>/dev/null; then
  /venv/bin/pip install --no-index --find-links /opt/veriftools/wheels hypothesis || exit 1
fi
$PY -c "import hypothesis; print('hypothesis', hypothesis.__version__)" || exit 1
exit 0
