#!/bin/sh
# Offline setup: the checks need hypothesis in /venv (pre-installed here); install from the
# local wheelhouse if it is missing. Nothing is fetched from a network.
PY=/venv/bin/python
if ! $PY -c "import hypothesis" 2>/dev/null; then
  /venv/bin/pip install --no-index --find-links /opt/veriftools/wheels hypothesis || exit 1
fi
$PY -c "import hypothesis; print('hypothesis', hypothesis.__version__)" || exit 1
# optional amplifier for the thorough tier of C01: atheris into .deps (not needed by any quick check)
if [ ! -d .deps/atheris ] && ls /opt/veriftools/wheels/atheris-*cp312* >/dev/null 2>&1; then
  /venv/bin/pip install -q --no-index --find-links /opt/veriftools/wheels --target .deps atheris >/dev/null 2>&1 || echo "atheris not installed (thorough C01 falls back to Hypothesis only)"
fi
exit 0
