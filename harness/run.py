"""CLI: python -m harness.run <ID> [--tier quick|thorough] [--replay file]"""
import argparse
import importlib
import json
import os
import sys
import traceback

from harness import core


def main(argv=None):
    ap = argparse.ArgumentParser()
    ap.add_argument("pid")
    ap.add_argument("--tier", default=os.environ.get("VERIF_TIER") or "quick", choices=["quick", "thorough"])
    ap.add_argument("--replay")
    a = ap.parse_args(argv)
    pid = a.pid.upper()
    try:
        seed = int(os.environ.get("VERIF_SEED", "1") or "1")
    except ValueError:
        seed = 1
    try:
        mod = importlib.import_module("harness.checks." + pid.lower())
    except ImportError as e:
        print("harness error: no check module for %s: %s" % (pid, e), file=sys.stderr)
        return 2
    try:
        if a.replay:
            path = a.replay if os.path.isabs(a.replay) else os.path.join(core.ROOT, a.replay)
            try:
                doc = core.jloads(open(path).read())
            except Exception as e:
                print("harness error: cannot read replay %s: %s" % (a.replay, e), file=sys.stderr)
                return 2
            case = doc.get("case", doc)
            v = mod.replay(case)
            if v is None:
                print("replay %s: property %s holds on this case" % (a.replay, pid))
                return 0
            print("VIOLATION property=%s replay=%s" % (pid, a.replay))
            print("  " + str(v).replace("\n", "\n  "))
            return 1
        # backstop for a shard that never ends (a loop in the library that does not terminate): long enough never to fire on a
        # loaded machine (quick shards take seconds to a minute), short enough to end the check with a harness error
        os.environ.setdefault("VERIF_SHARD_TIMEOUT", "1500" if a.tier == "quick" else "14400")
        ctx = core.Ctx(pid, a.tier, seed, level=getattr(mod, "LEVEL", "exploration"))
        mod.run(ctx)
        core.replay_regressions(ctx, mod.replay)
        return ctx.finish()
    except core.HarnessError as e:
        print("harness error: %s" % e, file=sys.stderr)
        return 2
    except Exception:
        print("harness error:\n" + traceback.format_exc(), file=sys.stderr)
        return 2


if __name__ == "__main__":
    sys.exit(main())
