"""Runner plumbing shared by all checks: statistics, violations, replay files,
known findings, Hypothesis driving, sharding, evidence."""
import collections
import json
import os
import sys
import time
import traceback

ROOT = os.path.dirname(os.path.dirname(os.path.abspath(__file__)))   # /verif checkout
# sensitivity runs against scratch copies must not overwrite committed evidence
OUT = os.environ.get("VERIF_OUT") or ("/tmp/verif-scratch-out" if os.environ.get("VERIF_NO_EVIDENCE") else ROOT)
NCPU = int(os.environ.get("VERIF_JOBS", "16"))
# diagnostic line-coverage tap (tools/cover.sh): child interpreters load harness/covsite/sitecustomize.py
COVPATH = (os.pathsep + os.path.join(ROOT, "harness", "covsite")) if os.environ.get("VERIF_COVER_DIR") else ""


def hashseed_for(obj):
    """PYTHONHASHSEED for a child interpreter: a pure function of the case (so runs repeat), spread over several values so
    that set / dict-of-str iteration order in the library is not always the one of seed 0"""
    import zlib
    return str(zlib.crc32(jdumps(obj, sort_keys=True, default=str).encode()) % 13)


class HarnessError(Exception):
    pass


class Violation(Exception):
    def __init__(self, case, msg, key=None):
        super().__init__(msg)
        self.case, self.msg, self.key = case, msg, key


def jdumps(obj, **kw):
    """json.dumps; integers of more than 4300 digits (CPython refuses to print them by default) are written with the limit
    lifted for this call only - the interpreter the library runs in keeps its default"""
    try:
        return json.dumps(obj, **kw)
    except ValueError as e:
        if "integer string conversion" not in str(e):
            raise
        old = sys.get_int_max_str_digits()
        sys.set_int_max_str_digits(0)
        try:
            return json.dumps(obj, **kw)
        finally:
            sys.set_int_max_str_digits(old)


def jloads(text):
    try:
        return json.loads(text)
    except ValueError as e:
        if "integer string conversion" not in str(e):
            raise
        old = sys.get_int_max_str_digits()
        sys.set_int_max_str_digits(0)
        try:
            return json.loads(text)
        finally:
            sys.set_int_max_str_digits(old)


def jdigest(obj):
    import hashlib
    return hashlib.sha1(jdumps(obj, sort_keys=True, default=str).encode()).hexdigest()[:12]


class Stats:
    """mergeable counters of what a run covered"""

    def __init__(self):
        self.evaluations = 0
        self.nontrivial = set()
        self.labels = collections.Counter()
        self.excluded = collections.Counter()
        self.inconclusive = collections.Counter()
        self.samples = []
        self.extra = {}
        self.violations = []     # list of dicts {case,msg,key}
        self.uncovered = []

    def case(self, case_obj=None, nontrivial=False, labels=(), sample_cap=6):
        self.evaluations += 1
        for l in labels:
            self.labels[l] += 1
        if nontrivial and case_obj is not None:
            self.nontrivial.add(jdigest(case_obj))
            if len(self.samples) < sample_cap:
                self.samples.append(case_obj)

    def to_json(self):
        return {
            "evaluations": self.evaluations, "nontrivial": sorted(self.nontrivial),
            "labels": dict(self.labels), "excluded": dict(self.excluded),
            "inconclusive": dict(self.inconclusive), "samples": self.samples,
            "extra": self.extra, "violations": self.violations, "uncovered": self.uncovered,
        }

    def merge_json(self, j):
        self.evaluations += j["evaluations"]
        self.nontrivial.update(j["nontrivial"])
        self.labels.update(j["labels"])
        self.excluded.update(j["excluded"])
        self.inconclusive.update(j["inconclusive"])
        for s in j["samples"]:
            if len(self.samples) < 12:
                self.samples.append(s)
        for k, v in j["extra"].items():
            if isinstance(v, (int, float)) and isinstance(self.extra.get(k, 0), (int, float)):
                self.extra[k] = self.extra.get(k, 0) + v
            elif isinstance(v, list):
                self.extra.setdefault(k, [])
                self.extra[k] = (self.extra[k] + v)[:40]
            else:
                self.extra[k] = v
        self.violations.extend(j["violations"])
        self.uncovered = sorted(set(self.uncovered) | set(j["uncovered"]))


# ---------------------------------------------------------------------------
# known findings

def load_known(pid):
    """returns dict key -> description for `finding:` lines of this property"""
    out = {}
    path = os.path.join(ROOT, "known_findings.txt")
    if not os.path.exists(path):
        return out
    for ln in open(path):
        ln = ln.strip()
        if not ln.startswith("finding:"):
            continue
        head, _, what = ln[len("finding:"):].partition("::")
        fields = dict(f.split("=", 1) for f in head.split() if "=" in f)
        if fields.get("property") == pid and "key" in fields:
            out[fields["key"]] = what.strip()
    return out


def _replay_one(modname, path):
    import importlib
    st = Stats()
    doc = jloads(open(path).read())
    case = doc.get("case", doc)
    msg = importlib.import_module(modname).replay(case)
    st.evaluations = 1
    if msg:
        st.violations.append({"case": case, "msg": "saved case %s: %s" % (os.path.basename(path), msg), "key": "regression"})
    return st


def replay_regressions(ctx, replay_fn):
    """seconds-long replay tier: saved counterexamples of earlier (seeded or repaired) defects, re-executed
    without the generator, each in a fresh process (module-level backend state must not leak between cases);
    each must hold on the tree under test"""
    import glob
    files = sorted(glob.glob(os.path.join(ROOT, "regressions", ctx.pid, "*.json")))
    if files:
        st = run_shards("harness.core", "_replay_one", [dict(modname="harness.checks." + ctx.pid.lower(), path=f) for f in files])
        ctx.stats.violations.extend(st.violations)
    ctx.stats.extra["saved_cases_replayed"] = len(files)


# ---------------------------------------------------------------------------
# hypothesis driving

def finish_shard(stats, v, replay_fn=None):
    """record a (Hypothesis-shrunk) Violation in stats, after statement-level minimisation of IR programs"""
    if v is None:
        return stats
    case, msg = v.case, v.msg
    if replay_fn is not None and isinstance(case, dict) and "stmts" in case:
        try:
            from harness.minimise import minimise
            small = minimise(case, lambda c: replay_fn(c) is not None)
            m2 = replay_fn(small)
            if m2 is not None:
                case, msg = small, m2
        except Exception:
            pass
    stats.violations.append({"case": case, "msg": msg, "key": v.key})
    return stats


def drive(test, seed, max_examples, shrink=True, stateful_steps=None):
    """Run a @given test (or a state machine class) deterministically from `seed`.
    Returns None, or the (shrunk) Violation. Anything else that escapes is a harness error."""
    import hypothesis
    from hypothesis import settings, HealthCheck, Phase
    phases = [Phase.explicit, Phase.generate] + ([Phase.shrink] if shrink else [])
    kw = dict(max_examples=max_examples, database=None, deadline=None, derandomize=False,
              report_multiple_bugs=False, suppress_health_check=list(HealthCheck), phases=phases,
              print_blob=False)
    try:
        if stateful_steps is not None:
            from hypothesis.stateful import run_state_machine_as_test
            kw["stateful_step_count"] = stateful_steps
            run_state_machine_as_test(hypothesis.seed(seed)(test), settings=settings(**kw))
        else:
            hypothesis.seed(seed)(settings(**kw)(test))()
    except Violation as v:
        return v
    except BaseException as e:   # includes Flaky, Unsatisfiable, bugs in the harness
        if isinstance(e, (KeyboardInterrupt, SystemExit)):
            raise
        # hypothesis may wrap (chains, and exception groups for results that differ between the run and
        # its replay): a Violation that was observed is a violation even if a replay does not reproduce it
        def find(x, depth=0):
            if x is None or depth > 6:
                return None
            if isinstance(x, Violation):
                return x
            for sub in getattr(x, "exceptions", ()) or ():
                r = find(sub, depth + 1)
                if r is not None:
                    return r
            return find(x.__cause__, depth + 1) or find(x.__context__, depth + 1)
        v = find(e)
        if v is not None:
            if type(e).__name__.startswith("Flaky"):
                v.msg += "  [observed once; Hypothesis could not reproduce it on replay: the failure depends on process state (e.g. object identity / allocation), not only on the generated case]"
            return v
        lib = library_frame(e)
        if lib is not None:
            # an exception raised INSIDE the library under test, on inputs the check considers valid and
            # without the check expecting it: that is a failure of the code, not of the harness
            return Violation({"unreproduced": True, "exception": type(e).__name__, "where": lib, "test": getattr(test, "__name__", str(test))},
                             "the library raised %s: %s at %s on a generated case the check expects to be handled (no minimal case recorded; "
                             "re-run the check with the same VERIF_SEED to reproduce)" % (type(e).__name__, e, lib), "library-exception")
        raise HarnessError("unexpected %s in generated test: %s\n%s" % (
            type(e).__name__, e, traceback.format_exc()))
    return None


def library_frame(e):
    """'file:line' of the traceback frame that decides whose exception this is: going from the innermost frame outwards, frames
    of the standard library, of installed packages and of the stand-in packages under harness/shims are passed over (code the
    library called); the first frame that lies in the repository under test makes it the library's exception (returned), the
    first frame in the harness proper makes it the harness's own (None)."""
    repo = os.path.realpath(os.environ.get("VERIF_REPO", "/repo")) + os.sep
    shims = os.path.join(ROOT, "harness", "shims") + os.sep
    root = os.path.realpath(ROOT) + os.sep
    seen = set()
    while e is not None and id(e) not in seen:
        seen.add(id(e))
        frames = []
        tb = e.__traceback__
        while tb is not None:
            frames.append((os.path.realpath(tb.tb_frame.f_code.co_filename), tb.tb_lineno))
            tb = tb.tb_next
        for fn, ln in reversed(frames):
            if fn.startswith(repo):
                return "%s:%d" % (fn[len(repo):], ln)
            if fn.startswith(root) and not fn.startswith(shims):
                break          # raised by (or on behalf of) harness code
            if fn.startswith("<"):
                break          # generated program text run by the harness: the check decides itself what that means
        subs = getattr(e, "exceptions", None)
        e = subs[0] if subs else (e.__cause__ or e.__context__)
    return None


# ---------------------------------------------------------------------------
# sharding

def _shard_entry(args):
    modname, fn, kwargs = args
    import importlib
    try:
        mod = importlib.import_module(modname)
        st = getattr(mod, fn)(**kwargs)
        if os.environ.get("VERIF_COVER_DIR") and "sitecustomize" in sys.modules:
            sys.modules["sitecustomize"].dump()       # pool workers leave through os._exit
        return ("ok", st.to_json())
    except HarnessError as e:
        return ("harness", str(e))
    except Exception as e:
        lib = library_frame(e)
        if lib is not None:
            st = Stats()
            st.evaluations = 1
            st.violations.append({"case": {"unreproduced": True, "shard": [modname, fn], "kwargs": repr(kwargs)[:2000]},
                                  "msg": "the library raised %s: %s at %s inside %s.%s on a case the check expects to be handled" % (
                                      type(e).__name__, e, lib, modname, fn), "key": "library-exception"})
            return ("ok", st.to_json())
        return ("harness", "%s: %s\n%s" % (type(e).__name__, e, traceback.format_exc()))


def _shard_child(conn, w):
    try:
        conn.send(_shard_entry(w))
        conn.close()
    finally:
        os._exit(0)


def run_shards(modname, fn, kwargs_list, jobs=None):
    """run mod.fn(**kwargs) for each kwargs in a fresh (forked) worker process each; merge Stats.
    A worker that ends without a result (killed by the memory limit, a fatal interpreter error) or that outlives the
    backstop VERIF_SHARD_TIMEOUT (default 2 h: a loop that never ends) is a harness error naming the shard - a pool would wait
    for it for ever."""
    import multiprocessing as mp
    import multiprocessing.connection as mpc
    import time
    jobs = jobs or min(NCPU, len(kwargs_list))
    total = Stats()
    work = [(modname, fn, kw) for kw in kwargs_list]
    if jobs <= 1 or len(work) == 1:
        results = [_shard_entry(w) for w in work]
    else:
        ctx = mp.get_context("fork")
        limit = float(os.environ.get("VERIF_SHARD_TIMEOUT", "7200"))
        results = [None] * len(work)
        pending = list(range(len(work)))
        running = {}
        try:
            while pending or running:
                while pending and len(running) < jobs:
                    i = pending.pop(0)
                    rd, wr = ctx.Pipe(duplex=False)
                    sys.stdout.flush()
                    sys.stderr.flush()
                    pr = ctx.Process(target=_shard_child, args=(wr, work[i]))
                    pr.start()
                    wr.close()
                    running[i] = (pr, rd, time.monotonic())
                ready = mpc.wait([rd for _, rd, _ in running.values()], timeout=5)
                for i, (pr, rd, t0) in list(running.items()):
                    if rd in ready:
                        try:
                            results[i] = rd.recv()
                        except (EOFError, OSError):
                            pr.join(10)
                            results[i] = ("harness", "shard %s.%s #%d ended without a result (exit code %r): the worker process died while running it; arguments %s" % (
                                modname, fn, i, pr.exitcode, repr(work[i][2])[:300]))
                        pr.join(10)
                        rd.close()
                        del running[i]
                    elif time.monotonic() - t0 > limit:
                        pr.kill()
                        pr.join(10)
                        rd.close()
                        del running[i]
                        results[i] = ("harness", "shard %s.%s #%d did not finish within %.0f s (VERIF_SHARD_TIMEOUT): inconclusive; arguments %s" % (
                            modname, fn, i, limit, repr(work[i][2])[:300]))
        finally:
            for pr, rd, _ in running.values():
                pr.kill()
    for status, payload in results:
        if status != "ok":
            raise HarnessError(payload)
        total.merge_json(payload)
    return total


def run_shards_optimised(modname, fn, kwargs_list):
    """Run shards in fresh interpreters started with `-O` (assert statements stripped): a configuration in which the
    library must behave the same. Each shard is a subprocess; results come back as JSON."""
    import subprocess
    total = Stats()
    procs = []
    for kw in kwargs_list:
        code = ("import sys, json; from harness import core; "
                "r = core._shard_entry((%r, %r, core.jloads(sys.stdin.read()))); print('\\nSHARD-RESULT ' + core.jdumps(r))" % (modname, fn))
        envv = dict(os.environ)
        envv["PYTHONPATH"] = os.pathsep.join([ROOT, os.environ.get("VERIF_REPO", "/repo")] + [p for p in os.environ.get("PYTHONPATH", "").split(os.pathsep) if p]) + COVPATH
        envv["PYTHONHASHSEED"] = str(1 + int(hashseed_for(kw)))       # these shards double as the "another hash seed" configuration
        procs.append(subprocess.Popen([sys.executable, "-O", "-c", code], stdin=subprocess.PIPE, stdout=subprocess.PIPE,
                                      stderr=subprocess.PIPE, text=True, cwd=ROOT, env=envv))
        procs[-1].stdin.write(jdumps(kw))
        procs[-1].stdin.close()
    for pr in procs:
        out = pr.stdout.read()
        err = pr.stderr.read()
        pr.wait()
        res = None
        for ln in out.splitlines():
            if ln.startswith("SHARD-RESULT "):
                res = jloads(ln[len("SHARD-RESULT "):])
        if res is None:
            raise HarnessError("optimised-interpreter shard %s.%s produced no result: %s" % (modname, fn, err[-400:]))
        status, payload = res
        if status != "ok":
            raise HarnessError(payload)
        for v in payload["violations"]:
            v["msg"] = "[python -O] " + v["msg"]
            if isinstance(v.get("case"), dict):
                v["case"]["python_optimise"] = True
        total.merge_json(payload)
    total.labels = collections.Counter({"python -O:" + k: v for k, v in total.labels.items()})
    return total


def compact_samples(samples, each=4000, total=60000):
    """Samples are for a reader: small ones are kept as they are, smaller ones first; a case whose JSON is longer than `each`
    characters is represented by its beginning, its size and its digest (replays and regressions hold complete cases).
    The whole list stays below `total` characters so that the evidence file remains a small, valid document."""
    out, used = [], 0
    for c in sorted(samples, key=lambda c: len(jdumps(c, default=str))):
        txt = jdumps(c, default=str)
        if len(txt) > each:
            c = {"sample_too_long_to_print": True, "json_characters": len(txt), "digest": jdigest(c), "begins": txt[:each // 2]}
            txt = jdumps(c)
        if used + len(txt) > total and out:
            break
        out.append(c)
        used += len(txt)
    return out


# ---------------------------------------------------------------------------
# context of one check run

class Ctx:
    def __init__(self, pid, tier, seed, level="exploration"):
        self.pid, self.tier, self.seed, self.level = pid, tier, seed, level
        self.t0 = time.time()
        self.stats = Stats()
        self.rule = ""
        self.assumptions = []
        self.exhaustive = None
        self.known = load_known(pid)
        self.known_still_failing = []

    def finish(self):
        """write evidence, print VIOLATION / KNOWN-FINDING lines, return exit code"""
        st = self.stats
        replays = []
        seen = set()
        for v in st.violations:
            key = jdigest(v["case"])
            if key in seen:
                continue
            if len(seen) >= 12:
                break          # one root cause usually shows in many cells; 12 replays are enough to act on
            seen.add(key)
            os.makedirs(os.path.join(OUT, "replays"), exist_ok=True)
            rel = os.path.join("replays", "%s-%s.json" % (self.pid, key))
            with open(os.path.join(OUT, rel), "w") as f:
                f.write(jdumps({"property": self.pid, "message": v["msg"], "key": v.get("key"),
                                "case": v["case"]}, indent=1, default=str))
            replays.append((rel, v))
        cov = {
            "evaluations": st.evaluations,
            "distinct_nontrivial": len(st.nontrivial),
            "rule": self.rule,
            "samples": compact_samples(st.samples[:12]),
            "labels": dict(sorted(st.labels.items())),
            "excluded_by_known_finding": dict(st.excluded),
            "inconclusive": dict(st.inconclusive),
            "uncovered_classes": st.uncovered,
            "known_findings_still_failing": self.known_still_failing,
        }
        cov.update(st.extra)
        if self.exhaustive is not None:
            cov["exhaustive"] = self.exhaustive
        ev = {
            "property_id": self.pid, "tier": self.tier, "seed": self.seed, "level": self.level,
            "coverage": cov, "assumptions": self.assumptions,
            "wall_s": round(time.time() - self.t0, 2), "violations": len(replays),
        }
        os.makedirs(os.path.join(OUT, "evidence"), exist_ok=True)
        with open(os.path.join(OUT, "evidence", self.pid + ".json"), "w") as f:
            f.write(jdumps(ev, indent=1, default=str))
        for key, what in self.known_still_failing:
            print("KNOWN-FINDING: property=%s key=%s %s" % (self.pid, key, what))
        for rel, v in replays:
            print("VIOLATION property=%s replay=%s" % (self.pid, rel))
            print("  " + v["msg"].replace("\n", "\n  "))
        print("%s tier=%s seed=%d evaluations=%d nontrivial=%d excluded=%d inconclusive=%d wall=%.1fs %s" % (
            self.pid, self.tier, self.seed, st.evaluations, len(st.nontrivial),
            sum(st.excluded.values()), sum(st.inconclusive.values()), time.time() - self.t0,
            "VIOLATIONS=%d" % len(replays) if replays else "ok"))
        sys.stdout.flush()
        return 1 if replays else 0
