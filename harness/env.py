"""In-process binding of pysnark (from /repo's working tree) to the recorder."""
import os
import sys

REPO = os.environ.get("VERIF_REPO", "/repo")


from harness.core import HarnessError  # the harness itself is broken (exit 2), never a violation


def _repo_first():
    if REPO not in sys.path[:1]:
        if REPO in sys.path:
            sys.path.remove(REPO)
        sys.path.insert(0, REPO)


_bound = None


def bind(as_module="pysnark.nobackend"):
    """Install the recorder under a backend module name and import the runtime."""
    global _bound
    if _bound is not None:
        return _bound
    _repo_first()
    os.environ.pop("PYSNARK_BACKEND", None)
    from harness import recorder
    if "pysnark.runtime" in sys.modules:
        raise HarnessError("pysnark.runtime imported before the recorder was installed")
    sys.modules[as_module] = recorder
    import pysnark
    if not os.path.realpath(pysnark.__file__).startswith(os.path.realpath(REPO) + os.sep):
        raise HarnessError("pysnark imported from %s, not from %s" % (pysnark.__file__, REPO))
    import pysnark.runtime as rt
    if rt.backend is not recorder:
        raise HarnessError("runtime did not select the recorder (got %r)" % (rt.backend,))
    import pysnark.boolean as bo
    import pysnark.fixedpoint as fx
    import pysnark.branching as br
    import pysnark.array as ar
    import pysnark.pack as pk
    import pysnark.linalg as la
    rt.autoprove = False

    class NS:
        pass
    ns = NS()
    ns.rec, ns.rt, ns.bo, ns.fx, ns.br, ns.ar, ns.pk, ns.la = recorder, rt, bo, fx, br, ar, pk, la
    _install_taps(ns)
    ns.default_bitlength = rt.bitlength
    ns.default_resolution = fx.resolution
    _bound = ns
    return ns


# Harness-side taps (no change to /repo): transparent wrappers that note which recorder variables
# are (K2) the quotient allocated by LinComb.__divmod__ and (K1) the result allocated by & | ^ with a
# plain constant. Only used to decide whether a soundness counterexample is explained by a listed finding.
k2_quotients = []
k2_calls = []        # (quotient lc, remainder lc, dividend lc, divisor lc) per integer divmod call
k1_results = []


def _install_taps(ns):
    L = ns.rt.LinComb
    rec = ns.rec
    orig_divmod = L.__divmod__

    def tapped_divmod(self, divisor):
        n0 = len(rec.vals)
        r = orig_divmod(self, divisor)
        if r is not NotImplemented and len(rec.vals) > n0:
            k2_quotients.append(n0)
            dl = divisor.lc.d if isinstance(divisor, L) else {0: divisor}
            k2_calls.append((dict(r[0].lc.d), dict(r[1].lc.d), dict(self.lc.d), dict(dl)))
        return r
    tapped_divmod.__wrapped__ = orig_divmod
    L.__divmod__ = tapped_divmod

    def tap_bit(name):
        orig = getattr(L, name)

        def tapped(self, other):
            n0 = len(rec.vals)
            r = orig(self, other)
            if isinstance(other, int) and r is not NotImplemented and len(rec.vals) == n0 + 1 and len(rec.cons) == ncons[0]:
                k1_results.append(n0)
            return r
        ncons = [0]

        def outer(self, other):
            ncons[0] = len(rec.cons)
            return tapped(self, other)
        outer.__wrapped__ = orig
        setattr(L, name, outer)
    for nm in ("__and__", "__or__", "__xor__", "__rand__", "__ror__", "__rxor__"):
        tap_bit(nm)


def reset(p=None, bitlength=None, resolution=None):
    """Fresh trace and pristine runtime globals: call at the top of every case."""
    ns = bind()
    rt = ns.rt
    ns.rec.reset(p)
    del k2_quotients[:]
    del k2_calls[:]
    del k1_results[:]
    rt.guard = None
    rt._ignore_errors = False
    rt.LinComb.ONE = rt.LinComb.ONE_SAFE
    rt.num_constraints = 0
    rt.bitlength = ns.default_bitlength if bitlength is None else bitlength
    ns.fx.resolution = ns.default_resolution if resolution is None else resolution
    return ns


# small primes with p > 2^(2b+2) so that no honest intermediate of one gadget wraps
SMALL = {2: 67, 3: 257, 4: 1031, 5: 4099}


def small_prime(b):
    return SMALL[b]
