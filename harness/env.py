"""In-process binding of pysnark (from /repo's working tree) to the recorder."""
import os
import sys

REPO = os.environ.get("VERIF_REPO", "/repo")


from harness.core import HarnessError  # the harness itself is broken (exit 2), never a violation


def _repo_first():
    if REPO not in sys.path[:1]:
        if REPO in sys.path:
            sys.path.remove(REPO)
        sys.path.insert(0, REPO)


_bound = None


def bind(as_module="pysnark.nobackend"):
    """Install the recorder under a backend module name and import the runtime."""
    global _bound
    if _bound is not None:
        return _bound
    _repo_first()
    os.environ.pop("PYSNARK_BACKEND", None)
    from harness import recorder
    if "pysnark.runtime" in sys.modules:
        raise HarnessError("pysnark.runtime imported before the recorder was installed")
    sys.modules[as_module] = recorder
    import pysnark
    if not os.path.realpath(pysnark.__file__).startswith(os.path.realpath(REPO) + os.sep):
        raise HarnessError("pysnark imported from %s, not from %s" % (pysnark.__file__, REPO))
    import pysnark.runtime as rt
    if rt.backend is not recorder:
        raise HarnessError("runtime did not select the recorder (got %r)" % (rt.backend,))
    import pysnark.boolean as bo
    import pysnark.fixedpoint as fx
    import pysnark.branching as br
    import pysnark.array as ar
    import pysnark.pack as pk
    import pysnark.linalg as la
    rt.autoprove = False

    class NS:
        pass
    ns = NS()
    ns.rec, ns.rt, ns.bo, ns.fx, ns.br, ns.ar, ns.pk, ns.la = recorder, rt, bo, fx, br, ar, pk, la
    ns.default_bitlength = rt.bitlength
    ns.default_resolution = fx.resolution
    _bound = ns
    return ns


def reset(p=None, bitlength=None, resolution=None):
    """Fresh trace and pristine runtime globals: call at the top of every case."""
    ns = bind()
    rt = ns.rt
    ns.rec.reset(p)
    rt.guard = None
    rt._ignore_errors = False
    rt.LinComb.ONE = rt.LinComb.ONE_SAFE
    rt.num_constraints = 0
    rt.bitlength = ns.default_bitlength if bitlength is None else bitlength
    ns.fx.resolution = ns.default_resolution if resolution is None else resolution
    return ns


# small primes with p > 2^(2b+2) so that no honest intermediate of one gadget wraps
SMALL = {2: 67, 3: 257, 4: 1031, 5: 4099}


def small_prime(b):
    return SMALL[b]
