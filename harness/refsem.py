"""Reference semantics on plain Python integers/booleans for the integer/boolean part of the
API (C05), and the documented no-raise domain (DESIGN.md section 3)."""
import operator as o

from harness.ir import supported

RAISES = ("raises",)
SKIP = ("skip",)

BINARY = ["add", "sub", "mul", "truediv", "floordiv", "mod", "divmod", "pow", "lshift", "rshift",
          "and", "or", "xor", "lt", "le", "gt", "ge", "eq", "ne"]
UNARY = ["neg", "pos", "abs", "invert", "check_zero", "check_nonzero", "check_positive", "copy", "deepcopy"]
TERNARY = ["ite", "if_else", "lc_if_else"]
PROTOCOL = ["int_of", "round_of", "floor_of", "ceil_of", "trunc_of", "index_of"]
CMP = {"lt": o.lt, "le": o.le, "gt": o.gt, "ge": o.ge, "eq": o.eq, "ne": o.ne}


def ref(name, vals, ts, cfg):
    """("val", v) | ("val2", q, r) | RAISES | SKIP for integer/boolean operands"""
    b, p = cfg["b"], cfg["_p"]
    if name in BINARY:
        x, y = int(vals[0]), int(vals[1])
        logical = "B" in ts
        if name == "add":
            return ("val", x + y)
        if name == "sub":
            return ("val", x - y)
        if name == "mul":
            return ("val", x * y)
        if name == "truediv":
            if y == 0 or x % y:
                return RAISES
            return ("val", x // y)
        if name in ("floordiv", "mod", "divmod"):
            if y == 0:
                return RAISES
            q, r = divmod(x, y)
            return {"floordiv": ("val", q), "mod": ("val", r), "divmod": ("val2", q, r)}[name]
        if name == "pow":
            if y < 0:
                return RAISES
            if ts[1] in "ib" and (y <= 64 or (y <= 2048 and abs(x) <= 3)):
                return ("val", x ** y)          # constant exponent: plain repeated multiplication, the integer itself
            return ("val", pow(x, y, p))        # secret exponent: square-and-multiply reduces modulo the field order
        if name == "lshift":
            if y < 0:
                return RAISES
            if y > 4096:
                return SKIP
            return ("val", x << y)
        if name == "rshift":
            if y < 0:
                return RAISES
            return ("val", x >> y)
        if name in ("and", "or", "xor"):
            if logical and not (x in (0, 1) and y in (0, 1)):
                return SKIP        # logical operators are only defined on 0/1 operands
            return ("val", {"and": o.and_, "or": o.or_, "xor": o.xor}[name](x, y))
        return ("val", int(CMP[name](x, y)))
    if name in UNARY:
        x = int(vals[0])
        if name == "neg":
            return ("val", -x)
        if name in ("pos", "copy", "deepcopy"):
            return ("val", x)
        if name == "abs":
            return ("val", abs(x))
        if name == "invert":
            if ts[0] == "B":
                return ("val", 1 - x)
            if 0 <= x < (1 << b):
                return ("val", x ^ ((1 << b) - 1))    # width-relative model (documented behaviour)
            return SKIP
        if name == "check_zero":
            return ("val", int(x == 0))
        if name == "check_nonzero":
            return ("val", int(x != 0))
        if name == "check_positive":
            return ("val", int(x >= 0))
    if name == "check_positive_n":
        x, n = int(vals[0]), int(vals[1])
        if n < 0 or x.bit_length() > n:
            return SKIP
        return ("val", int(x >= 0))
    if name == "pow3":
        try:
            return ("val", pow(int(vals[0]), int(vals[1]), int(vals[2])))
        except (ValueError, ZeroDivisionError):
            return RAISES
    if name in PROTOCOL:
        return ("val", int(vals[0]))          # int(), round(), floor, ceil, trunc, index of an integer (or bool) is that integer
    if name in TERNARY:
        c, x, y = vals
        if c not in (0, 1):
            return SKIP if name == "lc_if_else" else RAISES     # LinComb.if_else documents no check of its condition
        return ("val", int(x) if c else int(y))
    return SKIP


def in_core(name, vals, ts, cfg):
    """True iff the operands lie in the conservative domain on which the property says 'does not raise'"""
    b = cfg["b"]
    lim = 1 << b
    half = 1 << (b - 1)
    if "F" in ts or "f" in ts:
        return False
    if name in BINARY:
        if not supported(name, ts):
            return False
        x, y = int(vals[0]), int(vals[1])
        hasB = "B" in ts
        if hasB:
            # arithmetic and logical operators between booleans / 0-1 constants
            if name in ("add", "sub", "mul"):
                return True
            if name in ("and", "or", "xor"):
                if ts[0] != "B" and name != "and":
                    return False          # reflected | and ^ with a plain left operand are not implemented
                return x in (0, 1) and y in (0, 1)
            if name in CMP:
                return x in (0, 1) and y in (0, 1)
            return False
        if name in ("add", "sub", "mul"):
            return True
        if name == "truediv":
            return y != 0 and x % y == 0
        if name in ("floordiv", "mod", "divmod"):
            return 1 <= y < half and abs(x) < half
        if name in ("lt", "le", "gt", "ge"):
            return abs(x - y) + 1 < lim
        if name in ("eq", "ne"):
            return True
        if name == "pow":
            if ts[1] in "ib":
                return 0 <= y <= 64
            return 0 <= y < lim
        if name == "lshift":
            if ts[1] in "ib":
                return 0 <= y <= 256
            return 0 <= y < lim
        if name == "rshift":
            if not 0 <= x < lim:
                return False
            if ts[1] in "ib":
                return y >= 0
            return 0 <= y < b
        if name in ("and", "or", "xor"):
            return 0 <= x < lim and 0 <= y < lim
    if name in UNARY:
        x = int(vals[0])
        if name in ("neg", "pos"):
            return True
        if name == "abs":
            return ts[0] == "I" and abs(x) < half
        if name == "invert":
            return ts[0] == "B" or 0 <= x < lim
        if name in ("check_zero", "check_nonzero"):
            return ts[0] == "I"
        if name == "check_positive":
            return ts[0] == "I" and x.bit_length() < b
    if name == "ite":
        return ts[0] == "B" and vals[0] in (0, 1)
    if name == "if_else":
        return ts[0] == "B" and vals[0] in (0, 1)
    if name == "lc_if_else":
        return ts[0] == "I" and vals[0] in (0, 1)
    if name == "check_positive_n":
        return ts[0] == "I" and 0 <= int(vals[1]) and int(vals[0]).bit_length() <= int(vals[1])
    return False
