"""An integer that is not an `int`: what numpy.int64 / gmpy2.mpz look like to code that checks isinstance(x, int).
Supports __index__, int(), comparisons, hashing, str and the arithmetic a width or count argument meets."""


class IntLike:
    def __init__(self, v):
        self.v = int(v)

    def __index__(self):
        return self.v
    __int__ = __index__

    def __lt__(self, o): return self.v < int(o)
    def __le__(self, o): return self.v <= int(o)
    def __gt__(self, o): return self.v > int(o)
    def __ge__(self, o): return self.v >= int(o)
    def __eq__(self, o): return self.v == int(o)
    def __ne__(self, o): return self.v != int(o)
    def __hash__(self): return hash(self.v)
    def __str__(self): return str(self.v)
    def __repr__(self): return "IntLike(%d)" % self.v
    def __add__(self, o): return self.v + int(o)
    __radd__ = __add__
    def __sub__(self, o): return self.v - int(o)
    def __rsub__(self, o): return int(o) - self.v
    def __mul__(self, o): return self.v * int(o)
    __rmul__ = __mul__
    def __rlshift__(self, o): return int(o) << self.v
    def __rrshift__(self, o): return int(o) >> self.v
    def __bool__(self): return self.v != 0
