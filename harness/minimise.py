"""Statement-level minimiser for IR programs (applied after Hypothesis' own shrinking):
removes statements nothing depends on, unwraps guards, lowers integer literals, renumbering
value references; keeps a candidate only if `fails(candidate)` still reports a violation."""
import copy

from harness import ir


def _ranges(prog):
    """pre-order list of (path, (a, b)) = env index range produced by each statement"""
    out = []
    m = ir.Machine(prog["cfg"])

    def walk(stmts, path):
        for k, s in enumerate(stmts):
            a = len(m.vals)
            if s[0] == "guard":
                # execute body statement by statement under the guard to learn ranges
                cond = m.vals[s[2]]
                if s[1] == "lc" and m.types[s[2]] == "B":
                    cond = cond.lc
                idx = len(out)
                out.append(None)

                def body():
                    walk(s[3], path + [k])
                try:
                    m.ns.rt.guarded(cond)(body)()
                except _Stop:
                    out[idx] = (path + [k], (a, len(m.vals)))
                    raise
                except Exception:
                    out[idx] = (path + [k], (a, len(m.vals)))
                    raise _Stop()
                out[idx] = (path + [k], (a, len(m.vals)))
            else:
                r = m.exec_stmt(s, record=False)
                out.append((path + [k], (a, len(m.vals))))
                if r[0] == "raise":
                    raise _Stop()
    try:
        walk(prog["stmts"], [])
    except _Stop:
        pass
    return out


class _Stop(Exception):
    pass


def _get(stmts, path):
    for k in path[:-1]:
        stmts = stmts[k][3]
    return stmts, path[-1]


def _refs(s):
    if s[0] == "op":
        return list(s[2])
    if s[0] == "guard":
        r = [s[2]]
        for t in s[3]:
            r += _refs(t)
        return r
    if s[0] == "lazy":
        r = [s[2], s[4]]
        for t in s[3]:
            r += _refs(t)
        return r
    return []


def _all_refs_after(prog, path):
    """references made by statements that come after `path` in pre-order, excluding its own subtree"""
    refs = []

    def walk(stmts, cur):
        for k, s in enumerate(stmts):
            p = cur + [k]
            if p[:len(path)] == path:
                continue
            if p > path:
                if s[0] == "op":
                    refs.extend(s[2])
                elif s[0] == "guard":
                    refs.append(s[2])
            if s[0] == "guard":
                walk(s[3], p)
    walk(prog["stmts"], [])
    return refs


def _shift(stmts, a, n):
    for s in stmts:
        if s[0] == "op":
            s[2] = [r - n if r >= a else r for r in s[2]]
        elif s[0] == "guard":
            if s[2] >= a:
                s[2] -= n
            _shift(s[3], a, n)


def minimise(prog, fails, max_rounds=300):
    prog = copy.deepcopy(prog)
    for _ in range(max_rounds):
        changed = False
        # 1. drop statements nobody references (last first)
        try:
            rng = _ranges(prog)
        except Exception:
            return prog
        for path, (a, b) in reversed([r for r in rng if r]):
            later = _all_refs_after(prog, path)
            if any(a <= r < b for r in later):
                continue
            cand = copy.deepcopy(prog)
            lst, k = _get(cand["stmts"], path)
            if k >= len(lst):
                continue
            del lst[k]
            _shift(cand["stmts"], b, b - a)
            if fails(cand):
                prog, changed = cand, True
                break
        if changed:
            continue
        # 2. unwrap guards
        for path, (a, b) in [r for r in rng if r]:
            lst, k = _get(prog["stmts"], path)
            if k < len(lst) and lst[k][0] == "guard":
                cand = copy.deepcopy(prog)
                l2, _ = _get(cand["stmts"], path)
                l2[k:k + 1] = l2[k][3]
                if fails(cand):
                    prog, changed = cand, True
                    break
        if changed:
            continue
        # 3. simplify literals and configuration
        def literals(stmts):
            for s in stmts:
                if s[0] == "in" and s[3] not in (0, 1):
                    yield s, 3
                elif s[0] == "const" and isinstance(s[1], int) and not isinstance(s[1], bool) and s[1] not in (0, 1):
                    yield s, 1
                elif s[0] == "guard":
                    yield from literals(s[3])
        cand = copy.deepcopy(prog)
        for s, pos in list(literals(cand["stmts"])):
            old = s[pos]
            for new in (0, 1, 2, -1, old // 2):
                if new == old:
                    continue
                s[pos] = new
                if fails(cand):
                    prog, changed = copy.deepcopy(cand), True
                    break
                s[pos] = old
        if not changed:
            break
    return prog
