"""Single-operation cases as IR programs, plus exhaustive operand grids."""
import itertools

from harness import ir


def single(cfg, name, args, mode="normal", inplace=False, alias=False, prefail=None):
    """args: list of (type, kind, value); mode: normal | ignore | guard<levels>, one of 0, 1, p per nesting level, e.g. guard0, guard10, guard1p.
    An argument of type B whose value is not 0/1 is a DECLARED boolean holding garbage: it is created as an integer input
    and converted with LinCombBool(x) right before the operation, inside the innermost guard (possible only where errors
    are suppressed; elsewhere the conversion raises and the run ends there)."""
    stmts = []
    nonbool = []
    for i, (t, k, v) in enumerate(args):
        if t == "B" and v not in (0, 1):
            stmts.append(["in", k or "priv", "I", v])
            nonbool.append(i)
        elif t in "IBF":
            stmts.append(["in", k or "priv", t, v])
        else:
            stmts.append(["const", v])
    n = len(args)
    refs = list(range(n))
    if alias:
        # x OP x: one object on both sides (the operands must be equal cells)
        assert n == 2 and args[0] == args[1]
        stmts.pop()
        n, refs = 1, [0, 0]
    cfg = dict(cfg)
    if mode.startswith("ignore+"):
        cfg["ignore"] = True
        mode = mode[len("ignore+"):]
    nguards = len(mode[len("guard"):]) if mode.startswith("guard") else 0
    pre = []
    for j, i in enumerate(nonbool):
        pre.append(["op", "toB", [i]])
        refs = [n + nguards + j if r == i else r for r in refs]
    body = pre + [["op", name, refs] + (["inplace"] if inplace else [])]
    if prefail is not None:
        # a refused operation on the first traced operand, caught, right before the operation under test
        tr = [r for r in refs if args[r if r < len(args) else 0][0] in "IBF"] if not nonbool else []
        if tr:
            body = [["fail", prefail, tr[0]]] + body
    if mode == "ignore":
        cfg["ignore"] = True
        stmts += body
    elif mode.startswith("guard"):
        bits = mode[len("guard"):]
        # guards are created after the operands so that operand indices stay 0..n-1
        gidx = []
        for ch in bits:
            # 0 / 1: secret condition with that value; p: a PUBLIC condition (plain 1), as in _if(1) or a loop with an int bound
            stmts.append(["const", 1] if ch == "p" else ["in", "priv", "B", int(ch)])
            gidx.append(len(stmts) - 1)
        inner = body
        for g in reversed(gidx):
            inner = [["guard", "lc", g, inner]]
        stmts += inner
    else:
        stmts += body
    return {"cfg": cfg, "stmts": stmts, "first_result": n + nguards + len(nonbool)}


def results(m, nargs_total):
    """(values, types) of env entries created after the inputs"""
    return ([m.refval(i) for i in range(nargs_total, len(m.vals))], m.types[nargs_total:])


def type_combos(opname, secret_only=True):
    op = ir.OPS[opname]
    for ts in itertools.product(*op.types):
        if secret_only and not any(t in "IBFLA" for t in ts):
            continue
        yield ts


def int_pool(b, extra=2):
    lim = 1 << b
    return list(range(-lim - extra, lim + extra + 1))


def value_pool(t, b):
    if t in "Bb":
        return [0, 1]
    return int_pool(b)
