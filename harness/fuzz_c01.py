"""Coverage-guided amplifier (atheris / libFuzzer) for C01 + C04: drives the SAME Hypothesis program
generator through `fuzz_one_input`, with pysnark instrumented for coverage, and the oracles
(constraint evaluation after every statement, value == wire expression) inside the target.
Usage: python -m harness.fuzz_c01 <outfile.json> -runs=N -seed=S [libFuzzer args] <corpus dir>"""
import json
import os
import sys

import atheris

out_path = sys.argv[1]
argv = [sys.argv[0]] + sys.argv[2:]

with atheris.instrument_imports(include=["pysnark"]):
    from harness import env
    env.bind()

from hypothesis import given, settings, strategies as st, HealthCheck   # noqa: E402
from harness import core, ir, r1cs                                       # noqa: E402
from harness.checks import c01, c04                                      # noqa: E402

STATE = {"execs": 0, "completed": 0, "nontrivial": set(), "labels": {}, "violation": None}


@settings(database=None, deadline=None, suppress_health_check=list(HealthCheck))
@given(st.data())
def target(data):
    draw = data.draw
    STATE["attempts"] = STATE.get("attempts", 0) + 1
    cfg = ir.gen_cfg(draw, st)
    cfg["ignore"] = draw(st.booleans())
    n = draw(st.integers(1, 14))
    chk1, chk4 = c01.Checker(), c04.Checker()
    m = ir.Machine(cfg)
    g = ir.Gen(draw, st, m, p_out_of_domain=0.3 if cfg["ignore"] else 0.05, allow_ignore=True)
    suppressed = cfg["ignore"]       # C01 only speaks about runs in which error checking was never switched off
    for _ in range(n):
        pos = len(m.stmts)
        g.step()
        if '["ignore", true]' in json.dumps(m.stmts[pos:]):       # also inside guard / lazy bodies
            suppressed = True
        for s in m.stmts[pos:]:
            if not suppressed:
                chk1(m, s, None)
            chk4(m, s, None)
        if m.raised:
            break
    chk4.check_from(m, 0, "end of program")
    STATE["execs"] += 1
    if m.raised is None:
        STATE["completed"] += 1
        if c01.quadratic(m.ns.rec.cons):
            STATE["nontrivial"].add(core.jdigest(m.program()))
    for l in g.labels:
        if l.startswith("op:") or l.startswith("guard") or l.startswith("lazy"):
            STATE["labels"][l] = STATE["labels"].get(l, 0) + 1


def one_input(data):
    try:
        target.hypothesis.fuzz_one_input(data)
    except core.Violation as v:
        STATE["violation"] = {"case": v.case, "msg": v.msg, "key": v.key}
        dump()
        raise
    if STATE["execs"] % 250 == 0:
        dump()          # libFuzzer ends the process with _exit: nothing runs afterwards


def dump():
    j = dict(STATE)
    j["nontrivial"] = sorted(STATE["nontrivial"])
    with open(out_path, "w") as f:
        json.dump(j, f, default=str)


dump()
atheris.Setup(argv, one_input)
atheris.Fuzz()
