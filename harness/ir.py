"""Small typed IR over the pysnark public API, with one executor used both for
online (Hypothesis-driven) generation and for replay of recorded programs.

A program is JSON: {"cfg": {...}, "stmts": [...]}. Statements:
  ["in", kind, type, value]      kind priv|pub, type I|B|F (F: value is the scaled integer)
  ["const", value]               plain int / bool / ["f", num, den] float
  ["op", name, [refs...]]        refs index the value environment; results are appended
  ["guard", form, ref, [stmts]]  region under runtime.guarded(cond); form "lc"|"bool"
  ["ignore", bool]               runtime.ignore_errors(bool)
Value types are determined dynamically from what the API returns:
  I LinComb, B LinCombBool, F LinCombFxp, L list, A Array, i int, b bool, f float.
"""
import operator as o
from fractions import Fraction

from harness import env
from harness.recorder import REAL_FIELDS


def resolve_p(p):
    return REAL_FIELDS[p] if isinstance(p, str) else p


def classify(ns, x):
    if isinstance(x, ns.rt.LinComb):
        return "I"
    if isinstance(x, ns.bo.LinCombBool):
        return "B"
    if isinstance(x, ns.fx.LinCombFxp):
        return "F"
    if isinstance(x, ns.ar.Array):
        return "A"
    if isinstance(x, bool):
        return "b"
    if isinstance(x, int):
        return "i"
    if isinstance(x, float):
        return "f"
    if isinstance(x, list):
        return "L"
    if isinstance(x, tuple):
        return "T"
    if x is None:
        return "N"
    return "?"


SECRET = "IBF"


def inner(x, t):
    """the LinComb carrying value and wire expression of a secret-typed object"""
    return x if t == "I" else x.lc


def pyval(x, t):
    if t in SECRET:
        return inner(x, t).value
    return x


def centered(v, p):
    v %= p
    return v - p if v > p // 2 else v


# ---------------------------------------------------------------------------
# operations

class Op:
    def __init__(self, name, fn, types, pre=None, weight=1.0, params=None):
        self.name, self.fn, self.types, self.pre, self.weight = name, fn, types, pre, weight
        self.arity = len(types)
        self.params = params or {}      # position -> ("k", lo, hi) small plain-int parameter


OPS = {}


def defop(name, fn, types, pre=None, weight=1.0, params=None):
    OPS[name] = Op(name, fn, types, pre, weight, params)


def _fits(v, b):
    return isinstance(v, int) and v.bit_length() <= b


def _nonneg(v, b):
    return isinstance(v, int) and 0 <= v < (1 << b)


def _isint(*vs):
    return all(isinstance(v, int) for v in vs)


NUM = "IBFibf"
INTY = "IBib"
SEC_I = "I"

# plain python operators: at least one secret operand is enforced by the generator
_bin = {
    "add": o.add, "sub": o.sub, "mul": o.mul, "truediv": o.truediv, "floordiv": o.floordiv,
    "mod": o.mod, "divmod": divmod, "pow": o.pow, "lshift": o.lshift, "rshift": o.rshift,
    "and": o.and_, "or": o.or_, "xor": o.xor, "lt": o.lt, "le": o.le, "gt": o.gt, "ge": o.ge,
    "eq": o.eq, "ne": o.ne,
}


# augmented assignment (x += y ...): Python tries x.__iadd__ and falls back to the binary operator; the statement
# ["op", name, refs, "inplace"] binds the value the assignment leaves in x and must not disturb other references
INPLACE = {"add": o.iadd, "sub": o.isub, "mul": o.imul, "truediv": o.itruediv, "floordiv": o.ifloordiv, "mod": o.imod,
           "pow": o.ipow, "lshift": o.ilshift, "rshift": o.irshift, "and": o.iand, "or": o.ior, "xor": o.ixor}


def _pre_bin(name):
    def pre(a, cfg, ts):
        x, y = a
        b = cfg["b"]
        if "F" in ts or "f" in ts:
            # fixed point: keep magnitudes moderate, divisors positive
            if name in ("truediv", "floordiv", "mod", "divmod"):
                return y > 0 and abs(x) < (1 << (b - 2)) and y < (1 << (b - 2)) if _isint(x, y) or True else False
            if name in ("lt", "le", "gt", "ge"):
                return True
            return name in ("add", "sub", "mul", "eq", "ne")
        if not _isint(x, y):
            return False
        if "B" in ts and name in ("lt", "le", "gt", "ge", "eq", "ne"):
            return x in (0, 1) and y in (0, 1)
        if name == "truediv":
            return y != 0 and x % y == 0
        if name in ("floordiv", "mod", "divmod"):
            return 1 <= y <= (1 << b)
        if name in ("lt", "le", "gt", "ge"):
            return abs(x - y) + 1 < (1 << b)
        if name == "pow":
            return 0 <= y <= 3 if ts[1] in "ib" else 0 <= y < min(1 << b, 6)
        if name == "lshift":
            return 0 <= y <= b
        if name == "rshift":
            return _nonneg(x, b) and 0 <= y < b
        if name in ("and", "or", "xor"):
            if "B" in ts or "b" in ts:
                return x in (0, 1) and y in (0, 1)
            if ts[0] in "ib" or ts[1] in "ib":
                return True
            return _nonneg(x, b) and _nonneg(y, b)
        return True
    return pre


def supported(name, ts):
    """operand-type combinations the library implements (others raise TypeError/RuntimeError today);
    used only to bias generation, never as an oracle"""
    if name.startswith("assert_") and len(ts) == 2 and name != "assert_positive_n":
        a, b = ts
        return {"I": b in "Iib", "B": b in "Bbi", "F": b in "FIBibf"}.get(a, True)
    if name not in _bin:
        return True
    a, b = ts
    if "f" in ts and "F" not in ts:
        return False
    hasF = "F" in ts
    hasB = "B" in ts
    if name in ("add", "sub", "mul"):
        return True
    if name in ("truediv", "floordiv", "mod"):
        return not hasB
    if name == "divmod":
        return not hasB and not (b == "F" and a != "F")
    if name == "pow":
        if a == "B":
            return True
        if a == "F":
            return b in "ib"
        return b in "ibI" and not hasF
    if name in ("lshift", "rshift"):
        return not hasB and a in "IiF" and b in "ibI"
    if name in ("and", "or", "xor"):
        if hasF:
            return False
        if hasB:
            return a == "B" or name == "and"
        return True
    if hasB and hasF:
        return False
    return True


for _n, _f in _bin.items():
    defop(_n, (lambda f: lambda ns, x, y: f(x, y))(_f), [NUM, NUM], _pre_bin(_n),
          weight=2.0 if _n in ("add", "sub", "mul") else 1.0)

defop("neg", lambda ns, x: -x, ["IBF"])
# copies of a traced value are the same value on the same wires (copy.copy / copy.deepcopy of operands and results)
defop("copy", lambda ns, x: __import__("copy").copy(x), ["IBF"], weight=0.2)
defop("deepcopy", lambda ns, x: __import__("copy").deepcopy(x), ["IBF"], weight=0.2)
defop("pos", lambda ns, x: +x, ["IBF"], weight=0.3)
defop("abs", lambda ns, x: abs(x), ["IBF"], lambda a, cfg, ts: _fits(a[0], cfg["b"] - 1))
defop("invert", lambda ns, x: ~x, ["IB"], lambda a, cfg, ts: _nonneg(a[0], cfg["b"]))
defop("check_zero", lambda ns, x: x.check_zero(), ["IBF"])
defop("check_nonzero", lambda ns, x: x.check_nonzero(), ["IF"])
defop("check_positive", lambda ns, x: x.check_positive(), ["IBF"], lambda a, cfg, ts: _fits(a[0], cfg["b"]))
# explicit width: "given a value in [-2^n, 2^n], check whether it is positive"
defop("check_positive_n", lambda ns, x, n: x.check_positive(n), ["I", "i"],
      # n + 1 bits must fit the field with room to spare (the small primes of the complete searches are chosen for bitlength b)
      lambda a, cfg, ts: _fits(a[0], a[1]) and a[1] <= cfg["b"] + 1,
      weight=0.4, params={1: ("k", 0, 6)})
defop("assert_zero", lambda ns, x: x.assert_zero(), ["IBF"], lambda a, cfg, ts: a[0] == 0, weight=0.5)
defop("assert_nonzero", lambda ns, x: x.assert_nonzero(), ["IBF"], lambda a, cfg, ts: a[0] != 0, weight=0.5)
defop("assert_positive", lambda ns, x: x.assert_positive(), ["IBF"], lambda a, cfg, ts: _nonneg(a[0], cfg["b"]), weight=0.5)
defop("assert_positive_n", lambda ns, x, n: x.assert_positive(n), ["I", "i"],
      lambda a, cfg, ts: _nonneg(a[0], min(a[1], cfg["b"])), weight=0.5, params={1: ("k", 0, 6)})
for _n, _rel in (("assert_eq", o.eq), ("assert_ne", o.ne), ("assert_lt", o.lt), ("assert_le", o.le),
                 ("assert_gt", o.gt), ("assert_ge", o.ge)):
    defop(_n, (lambda n: lambda ns, x, y: getattr(x, n)(y))(_n), ["IBF", NUM],
          (lambda rel: lambda a, cfg, ts: rel(a[0], a[1]) and abs(a[0] - a[1]) + 1 < (1 << cfg["b"])
           and ("B" not in ts or (a[0] in (0, 1) and a[1] in (0, 1))))(_rel),
          weight=0.4)
defop("assert_range", lambda ns, x, lo, hi: x.assert_range(lo, hi), ["IF", "Ii", "Ii"],
      lambda a, cfg, ts: a[1] <= a[0] < a[2] and a[2] - a[1] < (1 << cfg["b"]), weight=0.4)
defop("to_bits", lambda ns, x: x.to_bits(), ["I"], lambda a, cfg, ts: _nonneg(a[0], cfg["b"]))
defop("to_bits_n", lambda ns, x, n: x.to_bits(n), ["I", "i"], lambda a, cfg, ts: _nonneg(a[0], a[1]),
      params={1: ("k", 0, 6)})
defop("declbits", lambda ns, a, b, c: ns.rt.LinComb.from_bits([ns.bo.LinCombBool(a), ns.bo.LinCombBool(b), ns.bo.LinCombBool(c)]),
      ["I", "I", "I"], lambda a, cfg, ts: all(v in (0, 1) for v in a), weight=0.3)
defop("blist", lambda ns, a, b, c: [a, b, c], ["B", "B", "B"], weight=0.4)
# bit lists with plain bits among the traced ones (a public field packed in front of a secret one), in any position
defop("blist_mixed", lambda ns, a, b, c, d: [a, b, c, d], ["Bb", "Bb", "Bb", "Bb"], lambda a, cfg, ts: "B" in ts and "b" in ts, weight=0.5)
defop("from_bits", lambda ns, l: ns.rt.LinComb.from_bits(l) if len(l) else ns.rt.LinComb.ZERO, ["L"])
def _from_bits_iterable(ns, l, k):
    # from_bits takes "an array of bits": the same bits handed over as a tuple, generator, iterator, reversed view or map
    forms = [lambda: tuple(l), lambda: (x for x in l), lambda: iter(l), lambda: reversed(l[::-1]), lambda: map(lambda x: x, l)]
    return ns.rt.LinComb.from_bits(forms[k % len(forms)]()) if len(l) else None


defop("from_bits_it", _from_bits_iterable, ["L", "i"], lambda a, cfg, ts: len(a[0]) > 0, weight=0.4, params={1: ("k", 0, 4)})
defop("bit", lambda ns, l, k: l[k % len(l)] if len(l) else None, ["L", "i"], lambda a, cfg, ts: len(a[0]) > 0, params={1: ("k", 0, 40)})
defop("val", lambda ns, x: x.val(), ["IBF"], weight=0.5)
# printing a traced value (repr / str / format) has no effect on the trace; the operation yields nothing
defop("fmt", lambda ns, x: ("%r %s" % (x, x), "{}".format(x)) and None, ["IBFA"], weight=0.3)
defop("ite", lambda ns, c, x, y: ns.br.if_then_else(c, x, y), ["Bb", "IBFi", "IBFi"], weight=2.0)
defop("if_else", lambda ns, c, x, y: c.if_else(x, y), ["B", "Ii", "Ii"], weight=0.5)
# LinComb.if_else: the condition is an integer wire holding 0 or 1 (not a declared boolean)
defop("lc_if_else", lambda ns, c, x, y: c.if_else(x, y), ["I", "Ii", "Ii"], lambda a, cfg, ts: a[0] in (0, 1), weight=0.4)
defop("toB", lambda ns, x: ns.bo.LinCombBool(x), ["I"], lambda a, cfg, ts: a[0] in (0, 1))
defop("ensurebool", lambda ns, x: ns.bo.LinCombBool._ensurebool(x), ["IBi"], lambda a, cfg, ts: a[0] in (0, 1), weight=0.3)
defop("toF", lambda ns, x: ns.fx.LinCombFxp(x), ["I"], weight=0.7)
defop("ensurefxp", lambda ns, x: ns.fx.LinCombFxp._ensurefxp(x), ["IBFif"], weight=0.3)
defop("array", lambda ns, *xs: ns.ar.Array(list(xs)), ["IBFi", "IBFi", "IBFi"], weight=0.7)      # elements of any traced kind, mixed
defop("aget", lambda ns, a, i: a[i], ["A", "Ii"], lambda a, cfg, ts: 0 <= a[1] < len(a[0]), weight=1.5)
defop("aset", lambda ns, a, i, v: a.__setitem__(i, v), ["A", "Ii", "Ii"], lambda a, cfg, ts: 0 <= a[1] < len(a[0]), weight=1.5)
defop("lin_comb", lambda ns, a, b, c, d: ns.la.lin_comb([a, b], [c, d]), ["Ii", "Ii", "I", "I"], weight=0.3)
# Array arithmetic and the linalg helpers (README: "Array arithmetic (+, -, scalar *)", joined(), if_then_else on arrays)
defop("arr_add", lambda ns, a, b: a + b, ["A", "A"], lambda a, cfg, ts: len(a[0]) == len(a[1]), weight=0.4)
defop("arr_sub", lambda ns, a, b: a - b, ["A", "A"], lambda a, cfg, ts: len(a[0]) == len(a[1]), weight=0.4)
defop("arr_scale", lambda ns, a, k: a * k if isinstance(k, int) and k % 2 else k * a, ["A", "Ii"], weight=0.4)
defop("arr_ite", lambda ns, c, a, b: ns.br.if_then_else(c, a, b), ["B", "A", "A"], lambda a, cfg, ts: len(a[1]) == len(a[2]), weight=0.4)
defop("arr_joined", lambda ns, a, b: ns.ar.Array(ns.ar.Array([a, b]).joined()), ["A", "A"], weight=0.2)
# nested arrays (README: "a[i, j]" on arrays of arrays): two rows, element and row access through plain and secret indices; the
# whole matrix comes back flattened so that every cell is a result
def _nd(ns, a, c):
    return ns.ar.Array([ns.ar.Array(list(a.arr)), ns.ar.Array(list(c.arr))])


def _nd_set(ns, a, c, i, j, v):
    m = _nd(ns, a, c)
    m[i, j] = v
    return ns.ar.Array(m.joined())


def _nd_setrow(ns, a, c, i, d):
    m = _nd(ns, a, c)
    m[i] = d
    return ns.ar.Array(m.joined())


_ndpre = lambda a, cfg, ts: len(a[0]) == len(a[1]) and 0 <= a[2] < 2 and 0 <= a[3] < len(a[0])
defop("nd_get", lambda ns, a, c, i, j: _nd(ns, a, c)[i, j], ["A", "A", "Ii", "Ii"], _ndpre, weight=0.4)
defop("nd_get2", lambda ns, a, c, i, j: _nd(ns, a, c)[i][j], ["A", "A", "Ii", "Ii"], _ndpre, weight=0.2)
defop("nd_set", _nd_set, ["A", "A", "Ii", "Ii", "Ii"], _ndpre, weight=0.5)
defop("nd_row", lambda ns, a, c, i: ns.ar.Array(_nd(ns, a, c)[i]), ["A", "A", "Ii"], lambda a, cfg, ts: len(a[0]) == len(a[1]) and 0 <= a[2] < 2, weight=0.2)
defop("nd_setrow", _nd_setrow, ["A", "A", "Ii", "A"], lambda a, cfg, ts: len(a[0]) == len(a[1]) == len(a[3]) and 0 <= a[2] < 2, weight=0.3)
# the linalg helpers take any iterables: here the coefficients / elements are produced lazily, each item emitting its own
# constraints at the moment it is pulled (a one-hot selector row "i == k for k in range(n)" is the library's own idiom)
defop("lin_comb_lazy", lambda ns, i, a, b, c: ns.la.lin_comb((i == k for k in range(3)), [a, b, c]), ["I", "Ii", "Ii", "Ii"], weight=0.3)
defop("vector_sub_lazy", lambda ns, a, b: ns.ar.Array(ns.la.vector_sub((x * x for x in a.arr), iter(b.arr))), ["A", "A"],
      lambda a, cfg, ts: len(a[0]) == len(a[1]), weight=0.2)
defop("scalar_mul", lambda ns, k, a: ns.ar.Array(ns.la.scalar_mul(k, a.arr)), ["Ii", "A"], weight=0.2)
defop("vector_sub", lambda ns, a, b: ns.ar.Array(ns.la.vector_sub(a.arr, b.arr)), ["A", "A"], lambda a, cfg, ts: len(a[0]) == len(a[1]), weight=0.2)


def _poseidon(ns, *xs):
    import pysnark.poseidon_hash as ph
    return ph.poseidon_hash(list(xs))


def _permute(ns, *xs):
    import pysnark.poseidon_hash as ph
    return ph.permute(list(xs))


defop("poseidon", _poseidon, ["IBF", "IBF"], weight=0.3)
defop("poseidon1", _poseidon, ["IBF"], weight=0.2)
defop("permute", _permute, ["I", "I", "I", "I", "I"], weight=0.15)


def _ggh(ns, l):
    import pysnark.ggh_hash as gh
    if gh.PRIME != ns.rec.P:
        raise TypeError("ggh_hash was bound to another field at import")
    # homogeneous list of secret LinCombs (examples/hash.py)
    return gh.ggh_hash([x.lc if isinstance(x, ns.bo.LinCombBool) else x for x in l])


defop("ggh", _ggh, ["L"], lambda a, cfg, ts: len(a[0]) > 0, weight=0.2)
defop("pack_int", lambda ns, x, m: ns.pk.PackIntMod(m).pack(x), ["I", "i"],
      lambda a, cfg, ts: 0 <= a[0] < a[1], weight=0.3, params={1: ("k", 1, 20)})


# the plain result of one @snark call (here simply x.val()) handed to the next @snark call, as in `x = step(x)` in a loop: the
# second call converts its argument by its Python type, so the type a value is read back with is part of the circuit's shape
defop("snark_chain", lambda ns, x: (ns.rt.snark(lambda a: a * a - 1)(x.val()), None)[1], ["IBF"], weight=0.3)


# a value assembled from raw integer wires (from_bits and PackIntMod.unpack take LinCombs as well as LinCombBools) and decomposed again
defop("frombits_tobits", lambda ns, a, b, c: ns.rt.LinComb.from_bits([a, b, c]).to_bits(4), ["I", "I", "I"], weight=0.15)
defop("frombits_shift", lambda ns, a, b, c: ns.rt.LinComb.from_bits([a, b, c]) >> 1, ["I", "I", "I"], weight=0.15)
defop("frombits_mixed", lambda ns, a, b, c, d: ns.rt.LinComb.from_bits([a, b, c, d]), ["Ii", "Ii", "Ii", "Ii"], lambda a, cfg, ts: "I" in ts and "i" in ts, weight=0.2)
defop("unpack_pack", lambda ns, a, b, c: ns.pk.PackIntMod(8).pack(ns.pk.PackIntMod(8).unpack([a, b, c], 0)), ["I", "I", "I"], weight=0.15)


# Python's numeric protocols applied to traced values (refused today: TypeError / ValueError; if ever supported, Python's meaning)
import math as _math
import operator as _operator
def _refused_if_notimplemented(v):
    # the library answers round() / floor() / ceil() / trunc() of an integer wire with the NotImplemented object (its way of
    # saying "not supported" - the binary-operator convention used for a unary protocol): a refusal, like an exception
    if v is NotImplemented:
        raise TypeError("the library returned NotImplemented")
    return v


defop("pow3", lambda ns, x, e, m: _refused_if_notimplemented(pow(x, e, m)), ["IB", "i", "iI"], weight=0.15, params={1: ("k", 0, 6)})
defop("int_of", lambda ns, x: _refused_if_notimplemented(int(x)), ["IBF"], weight=0.1)
defop("round_of", lambda ns, x: _refused_if_notimplemented(round(x)), ["IBF"], weight=0.1)
defop("round0_of", lambda ns, x: _refused_if_notimplemented(round(x, 0)), ["F"], weight=0.05)
defop("floor_of", lambda ns, x: _refused_if_notimplemented(_math.floor(x)), ["IBF"], weight=0.1)
defop("ceil_of", lambda ns, x: _refused_if_notimplemented(_math.ceil(x)), ["IBF"], weight=0.1)
defop("trunc_of", lambda ns, x: _refused_if_notimplemented(_math.trunc(x)), ["IBF"], weight=0.1)
defop("index_of", lambda ns, x: _refused_if_notimplemented(_operator.index(x)), ["IB"], weight=0.1)


# unpacking bits that are already wires (pack.py: "lincomb in"): a single flag, a seed-like run of flags, a mixed record
defop("unpack_bool", lambda ns, x: ns.pk.PackBool().unpack([x], 0), ["IB"], weight=0.2)
defop("unpack_flags", lambda ns, a, b, c: ns.pk.PackRepeat(ns.pk.PackBool(), 3).unpack([a, b, c], 0), ["IB", "IB", "IB"], weight=0.2)
defop("unpack_record", lambda ns, x, b0, b1, z: ns.pk.PackList([ns.pk.PackBool(), ns.pk.PackIntMod(3), ns.pk.PackBool()]).unpack([x, b0, b1, z], 0),
      ["IB", "B", "B", "IB"], weight=0.2)


# ---------------------------------------------------------------------------
# executor

class Machine:
    """runs statements against the API bound to the recorder; keeps the value environment"""

    def __init__(self, cfg):
        self.cfg = dict(cfg)
        self.p = resolve_p(cfg["p"])
        self.ns = env.reset(self.p, cfg["b"], cfg["r"])
        if cfg.get("ignore"):
            self.ns.rt.ignore_errors(True)
        self.vals = []      # api objects
        self.types = []
        self.stmts = []     # recorded program (top-level statement list being built)
        self._cur = self.stmts
        self.raised = None  # (statement, exception) that ended the run
        self.input_vars = []  # recorder variables created by "in" statements
        self.depth = 0
        self.stmt_count = 0

    # -- value helpers
    def refval(self, i):
        """python-level value reported by the API for env entry i (list -> list, array -> list)"""
        x, t = self.vals[i], self.types[i]
        if t in SECRET:
            return pyval(x, t)
        if t == "L":
            return list(x)
        if t == "A":
            return list(x.arr)
        return x

    def bind(self, x):
        ns = self.ns
        t = classify(ns, x)
        if t == "N":
            return []
        if t == "T":
            out = []
            for y in x:
                out += self.bind(y)
            return out
        self.vals.append(x)
        self.types.append(t)
        return [len(self.vals) - 1]

    def program(self):
        return {"cfg": self.cfg, "stmts": self.stmts}

    # -- statements
    def exec_stmt(self, stmt, body_fn=None, record=True):
        """returns ("ok", [new indices]) or ("raise", exc). A raise ends the run."""
        ns = self.ns
        kind = stmt[0]
        self.stmt_count += 1
        target = self._cur
        try:
            if kind == "in":
                _, k, t, v = stmt
                nv = len(ns.rec.vals)
                new = self.bind(self._make_input(k, t, v))
                self.input_vars.extend(range(nv, len(ns.rec.vals)))
            elif kind == "const":
                v = stmt[1]
                if isinstance(v, list):
                    v = float(Fraction(v[1], v[2]))
                new = self.bind(v)
            elif kind == "op":
                opd = OPS[stmt[1]]
                args = [self.vals[i] for i in stmt[2]]
                if len(stmt) > 3 and stmt[3] == "inplace":
                    new = self.bind(INPLACE[stmt[1]](*args))
                elif len(stmt) > 3 and stmt[3] == "try":
                    # the program wraps the call in try/except and carries on if the library refuses it
                    try:
                        new = self.bind(opd.fn(ns, *args))
                    except Exception:
                        new = self.bind(None)
                else:
                    new = self.bind(opd.fn(ns, *args))
            elif kind == "ignore":
                ns.rt.ignore_errors(stmt[1])
                new = []
            elif kind == "setb":
                # the program changes the global bitlength between two operations (the README: set it after the import)
                ns.rt.bitlength = stmt[1]
                self.cfg = dict(self.cfg, b=stmt[1])
                new = []
            elif kind == "fail":
                # an operation the library refuses (or cannot do), caught by the program, which then carries on: whatever the
                # refused call left half-done must not matter to the calls that follow
                x = self.vals[stmt[2]]
                b_ = self.cfg["b"]
                acts = [lambda: x / 0, lambda: x.assert_eq(x + 1), lambda: x + "s", lambda: (x - x + 3).to_bits(1),
                        lambda: ns.ar.Array([x, x])[ns.rt.PrivVal(7)], lambda: x < (1 << (b_ + 5)), lambda: ns.bo.LinCombBool(x - x + 2),
                        lambda: ns.pk.PackIntMod(3).unpack([ns.bo.PrivValBool(1), ns.bo.PrivValBool(1)], 0), lambda: (x - x).assert_nonzero(),
                        lambda: ns.rt.snark(lambda a: a)(1, k=2), lambda: x // 0, lambda: x % (x - x), lambda: x ** -1,
                        lambda: ns.rt.add_guard(0), lambda: ns.rt.LinComb.from_bits([x, None]), lambda: ns.br.if_then_else(2, x, x)]
                try:
                    acts[stmt[1] % len(acts)]()
                except Exception:
                    pass
                new = []
            elif kind == "guard":
                _, form, ref, body = stmt
                cond = self.vals[ref]
                if form == "lc" and self.types[ref] == "B":
                    cond = cond.lc
                rec_body = []
                stmt = ["guard", form, ref, rec_body]

                def run_body():
                    saved = self._cur
                    self._cur = rec_body
                    self.depth += 1
                    try:
                        if body_fn is not None:
                            body_fn(self)
                        else:
                            for s in body:
                                out = self.exec_stmt(s)
                                if out[0] == "raise":
                                    raise _Abort()
                    finally:
                        self._cur = saved
                        self.depth -= 1
                new = []
                ns.rt.guarded(cond)(run_body)()
            elif kind == "lazy":
                _, form, cref, body, oref = stmt
                cond, other = self.vals[cref], self.vals[oref]
                rec_body = []
                stmt = ["lazy", form, cref, rec_body, oref]

                def branch():
                    saved = self._cur
                    self._cur = rec_body
                    self.depth += 1
                    n0 = len(self.vals)
                    try:
                        if body_fn is not None:
                            body_fn(self)
                        else:
                            for s in body:
                                out = self.exec_stmt(s)
                                if out[0] == "raise":
                                    raise _Abort()
                    finally:
                        self._cur = saved
                        self.depth -= 1
                    for i in range(len(self.vals) - 1, n0 - 1, -1):
                        if self.types[i] in "IBF":
                            return self.vals[i]
                    return other
                if form == "true":
                    res = ns.br.if_then_else(cond, branch, other)
                elif form == "false":
                    res = ns.br.if_then_else(cond, other, branch)
                else:
                    res = ns.br.if_then_else(cond, branch, lambda: other)
                new = self.bind(res)
            else:
                raise env.HarnessError("unknown statement %r" % (stmt,))
        except _Abort:
            if record:
                target.append(stmt)
            return ("raise", self.raised[1])
        except env.HarnessError:
            raise
        except Exception as e:
            if record:
                target.append(stmt)
            if self.raised is None:
                self.raised = (stmt, e)
            return ("raise", e)
        if record:
            target.append(stmt)
        return ("ok", new)

    def _make_input(self, k, t, v):
        ns = self.ns
        if isinstance(v, list) and v and v[0] == "pow":
            v = v[1] ** v[2]        # integers too long to be written out (beyond CPython's int -> str digit limit)
        if t == "I":
            return ns.rt.PrivVal(v) if k == "priv" else ns.rt.PubVal(v)
        if t == "B":
            return ns.bo.PrivValBool(v) if k == "priv" else ns.bo.PubValBool(v)
        if t == "F":
            r = self.cfg["r"]
            f = ns.fx.PrivValFxp if k == "priv" else ns.fx.PubValFxp
            if abs(v) < (1 << 52):
                if v % (1 << r) == 0 and (v >> r) % 2 == 0:
                    return f(v >> r)          # whole numbers are handed over as Python ints half of the time (2, not 2.0)
                return f(float(Fraction(v, 1 << r)))
            return f(v, False)
        raise env.HarnessError("bad input type %r" % t)


class _Abort(Exception):
    pass


def run_program(prog, after=None):
    """replay a recorded program; `after(machine, stmt, outcome)` is called after each
    top-level statement. Returns the machine."""
    m = Machine(prog["cfg"])
    for s in prog["stmts"]:
        out = m.exec_stmt(s, record=True)
        if after is not None:
            after(m, s, out)
        if out[0] == "raise":
            break
    return m


# ---------------------------------------------------------------------------
# secret objects reachable from a value (for C04-style checks)

def secret_leaves(ns, x, path="", seen=None):
    """yield (path, LinComb) for every LinComb reachable from x"""
    t = classify(ns, x)
    if t == "I":
        yield path, x
    elif t in "BF":
        yield path + ".lc", x.lc
    elif t == "A":
        for i, y in enumerate(x.arr):
            yield from secret_leaves(ns, y, "%s.arr[%d]" % (path, i))
    elif t in "LT":
        for i, y in enumerate(x):
            yield from secret_leaves(ns, y, "%s[%d]" % (path, i))


# ---------------------------------------------------------------------------
# online generation

def gen_cfg(draw, st, small_ok=True, real_only=False, bits=None):
    fields = ["bn128", "bn128", "bls12-381", "curve25519"]
    if small_ok and not real_only and draw(st.integers(0, 3)) == 0:
        b = draw(st.sampled_from([2, 3, 4]))
        return {"p": env.SMALL[b], "b": b, "r": draw(st.integers(0, 3)), "ignore": False}
    b = draw(st.sampled_from(bits or [2, 3, 4, 5, 8, 8, 16, 16, 32, 64]))
    return {"p": draw(st.sampled_from(fields)), "b": b, "r": draw(st.sampled_from([0, 1, 2, 4, 8, 12])),
            "ignore": False}


def int_values(st, b):
    hb = 1 << max(b - 1, 0)
    return st.one_of(
        st.integers(-3, 3),
        st.integers(-hb, max(hb - 1, 0)),
        st.integers(0, (1 << b) - 1),
        st.sampled_from([hb, -hb, hb - 1, (1 << b) - 1, 1 << b, (1 << b) + 1, -(1 << b), 0, 1]),
    )


MAGIC = [100, 127, 128, 255, 256, 257, 999, 1000, 1001, 1023, 1024, 4095, 4096, 4999, 5000, 5001, 9999, 10000, 32767, 32768, 65535, 65536, 65537, 10 ** 6]


class Gen:
    """draws statements model-guided by the values the API reports"""

    def __init__(self, draw, st, machine, ops=None, p_out_of_domain=0.04, allow_guard=True,
                 allow_ignore=False, value_strategy=None, wrap_values=True):
        self.draw, self.st, self.m = draw, st, machine
        self.ops = [OPS[n] for n in (ops or OPS)]
        self.pool = [op for op in self.ops for _ in range(max(1, int(round(op.weight * 10))))]
        self.p_ood = p_out_of_domain
        self.allow_guard = allow_guard
        self.allow_ignore = allow_ignore
        self.labels = set()
        self.guard_forms = ["lc", "lc", "lc", "bool"]
        self.allow_lazy = True
        self.wrap_values = wrap_values      # also draw integers at / beyond the field order (congruent to small ones)
        self.ivals = value_strategy if value_strategy is not None else int_values(st, machine.cfg["b"])

    def _pick_weighted(self):
        return self.draw(self.st.sampled_from(self.pool))

    def fresh(self, t, safe=False):
        """make a new input/constant of type t, return its env index (or None if it raised)"""
        draw, st, m = self.draw, self.st, self.m
        b, r = m.cfg["b"], m.cfg["r"]
        ivals = self.ivals
        if safe:
            ivals = st.integers(0, min((1 << b) - 1, 6))
        if t == "I":
            v = draw(ivals)
            if not safe and self.wrap_values and draw(st.integers(0, 13)) == 0:
                # a value congruent (mod p) to an existing one but different as an integer, or at the prime itself
                olds = [m.refval(i) for i, tt in enumerate(m.types) if tt == "I"]
                base = draw(st.sampled_from(olds)) if olds and draw(st.booleans()) else draw(st.sampled_from([0, 1, -1, -8]))
                v = base + draw(st.sampled_from([1, -1, 2])) * m.p
                self.labels.add("value:congruent-mod-p")
            stmt = ["in", draw(st.sampled_from(["priv", "priv", "pub"])), "I", v]
        elif t == "B":
            stmt = ["in", draw(st.sampled_from(["priv", "priv", "pub"])), "B", draw(st.integers(0, 1))]
        elif t == "F":
            stmt = ["in", draw(st.sampled_from(["priv", "priv", "pub"])), "F", draw(ivals)]
        elif t == "i":
            # now and then a round / table-boundary constant (1000, 4096, 5000, 65536 ...): sizes of lookup tables, caches and chunks
            stmt = ["const", draw(st.sampled_from(MAGIC)) * draw(st.sampled_from([1, 1, -1])) if (not safe and draw(st.integers(0, 11)) == 0) else draw(ivals)]
        elif t == "b":
            stmt = ["const", draw(st.booleans())]
        elif t == "f":
            stmt = ["const", ["f", draw(ivals), 1 << draw(st.integers(0, r))]]
        elif t == "L":
            i = self.fresh("I", safe)
            if i is None:
                return None
            out = m.exec_stmt(["op", "to_bits", [i]])
            return out[1][0] if out[0] == "ok" and out[1] else None
        elif t == "A":
            idx = [self.fresh(draw(st.sampled_from("IIi")), safe) for _ in range(3)]
            if any(i is None for i in idx):
                return None
            out = m.exec_stmt(["op", "array", idx])
            return out[1][0] if out[0] == "ok" and out[1] else None
        else:
            return None
        out = m.exec_stmt(stmt)
        return out[1][0] if out[0] == "ok" and out[1] else None

    def pick_arg(self, allowed, param=None, safe=False):
        draw, st, m = self.draw, self.st, self.m
        if param is not None:
            _, lo, hi = param
            out = m.exec_stmt(["const", draw(st.integers(lo, hi))])
            return out[1][0]
        cands = [i for i, t in enumerate(m.types) if t in allowed]
        # chains: the OUTPUT of the previous operation (with whatever internal form that operation gave it), and that operation's own
        # operands, are preferred as inputs of the next one - (a*b)/b, (x>>k)|y, from_bits(...).assert_positive(), hash of a digest
        near = [i for i in cands if i in getattr(self, "recent", ())]
        if near and not safe and draw(st.integers(0, 2)) == 0:
            return draw(st.sampled_from(near))
        if cands and not safe and draw(st.integers(0, 3)) != 0:
            return draw(st.sampled_from(cands))
        if safe:
            allowed = "".join(t for t in allowed if t in "IBLA") or allowed
        return self.fresh(draw(st.sampled_from(allowed)), safe)

    def step(self):
        """draw and execute one statement; returns (stmt, outcome) or None if nothing was run"""
        draw, st, m = self.draw, self.st, self.m
        if self.allow_ignore and draw(st.integers(0, 14)) == 0:
            stmt = ["ignore", draw(st.booleans())]
            self.labels.add("ignore-toggle")
            return stmt, m.exec_stmt(stmt)
        if self.allow_guard and m.depth < 3 and draw(st.integers(0, 7)) == 0:
            return self.guard_step()
        if self.allow_guard and self.allow_lazy and m.depth < 3 and draw(st.integers(0, 11)) == 0:
            return self.lazy_step()
        if getattr(self, "last_op", None) is not None and draw(st.integers(0, 11)) == 0:
            # the previous operation once more, on the same objects: a value revealed twice, an assertion repeated, a
            # conversion or comparison done again (anything an object remembers about itself shows here)
            stmt = [x if not isinstance(x, list) else list(x) for x in self.last_op]
            self.labels.add("repeated-op")
            return stmt, m.exec_stmt(stmt)
        op = self._pick_weighted()
        # inside a false guard / under ignore_errors invalid operands are what the code is there for
        p_ood = max(self.p_ood, 0.45) if m.ns.rt.ignore_errors() else self.p_ood
        want_in_domain = draw(st.floats(0, 1, allow_nan=False)) >= p_ood
        refs = None
        for attempt in range(7):
            cand = []
            for pos, allowed in enumerate(op.types):
                i = self.pick_arg(allowed, op.params.get(pos), safe=attempt >= 3)
                if i is None or m.raised:
                    return None
                cand.append(i)
            ts = [m.types[i] for i in cand]
            if not any(t in "IBFLA" for t in ts):
                continue
            if want_in_domain and not supported(op.name, ts):
                continue
            if op.pre is None or not want_in_domain:
                refs = cand
                break
            try:
                if op.pre([m.refval(i) for i in cand], m.cfg, ts):
                    refs = cand
                    break
            except Exception:
                pass
        if refs is None:
            return None
        ts = "".join(m.types[i] for i in refs)
        if ((op.name == "lshift" and ts[1] in "ibI") or (op.name in ("rshift", "pow") and ts[1] == "I")) and \
                isinstance(m.refval(refs[1]), int) and abs(m.refval(refs[1])) > 4096:
            # x << k multiplies by 2**k (and shifts / powers by a SECRET amount compute 2**k, x**k on the values): an amount drawn
            # from the operand range (billions) makes gigabyte integers - no program shifts by that much, and the run would end
            # in MemoryError (and in a different place when replayed)
            return None
        stmt = ["op", op.name, refs]
        if op.name in INPLACE and ts[0] in "IBF" and draw(st.integers(0, 7)) == 0:
            stmt.append("inplace")
            self.labels.add("inplace")
        out = m.exec_stmt(stmt)
        self.last_op = stmt
        self.recent = list(refs) + (list(out[1]) if out[0] == "ok" else [])
        self.labels.add("op:" + op.name)
        self.labels.add("kinds:" + op.name + ":" + ts)
        if m.depth:
            self.labels.add("guarded-op:" + op.name)
        return stmt, out

    def guard_step(self):
        draw, st, m = self.draw, self.st, self.m
        form = draw(st.sampled_from(self.guard_forms))
        cands = [i for i, t in enumerate(m.types) if t == "B" or (t == "I" and m.refval(i) in (0, 1))]
        if cands and draw(st.booleans()):
            ref = draw(st.sampled_from(cands))
        else:
            ref = self.fresh(draw(st.sampled_from("BBBBBI")) if form == "lc" else "B")
            if ref is None:
                return None
            if m.types[ref] == "I" and m.refval(ref) not in (0, 1):
                self.labels.add("guard:nonboolean")
        n = draw(st.integers(1, 4))
        gval = m.refval(ref)
        self.labels.add("guard:%s:%s" % (form, gval if gval in (0, 1) else "x"))
        if m.depth >= 1:
            self.labels.add("guard:nested")

        def body(mm):
            for _ in range(n):
                r = self.step()
                if mm.raised:
                    raise _Abort()
        stmt = ["guard", form, ref, []]
        out = m.exec_stmt(stmt, body_fn=body)
        return m._cur[-1] if m._cur else stmt, out


def _lazy_step(self):
    draw, st, m = self.draw, self.st, self.m
    form = draw(st.sampled_from(["true", "false", "both"]))
    cands = [i for i, t in enumerate(m.types) if t == "B"]
    cref = draw(st.sampled_from(cands)) if cands and draw(st.booleans()) else self.fresh("B")
    if cref is None:
        return None
    ocands = [i for i, t in enumerate(m.types) if t in "I"]
    oref = draw(st.sampled_from(ocands)) if ocands and draw(st.booleans()) else self.fresh("I")
    if oref is None:
        return None
    n = draw(st.integers(1, 3))
    self.labels.add("lazy:%s:%s" % (form, m.refval(cref)))

    def body(mm):
        for _ in range(n):
            self.step()
            if mm.raised:
                raise _Abort()
    stmt = ["lazy", form, cref, [], oref]
    out = m.exec_stmt(stmt, body_fn=body)
    return m._cur[-1] if m._cur else stmt, out


Gen.lazy_step = _lazy_step


def generate(draw, st, cfg, n_stmts, after=None, **gen_kw):
    """online generation: returns (machine, labels). `after(machine, stmt, outcome)` after each
    top-level statement."""
    m = Machine(cfg)
    g = Gen(draw, st, m, **gen_kw)
    for _ in range(n_stmts):
        before = len(m.stmts)
        r = g.step()
        if after is not None:
            for s in m.stmts[before:]:
                after(m, s, None)
        if m.raised:
            break
    return m, g.labels


# ---------------------------------------------------------------------------
# deterministic chains: the output of one operation is the input of the next, together with the first operation's own operands

def chain_programs(b, p="bn128", r=0):
    """programs "in a, in b, op1(a, b) -> t, op2(t, a or b) [, op3]" for operation pairs that undo or reuse each other: (a*b)/b,
    (a+b)-b, (a<<k)>>k, from_bits(to_bits(a)), -(-a), (a^b)^b, (a//b)*b + a%b, (a>>k)|b, (a*k)+c then /k, x**0 used again ..."""
    lim = 1 << b
    vals = [(6, 7), (7, 6), (3, 3), (1, 5), (lim // 2 - 1, 2), (0, 4), (5, 1), (-3, 2), (12, 4)]
    progs = []
    pairs = [("mul", "truediv", 1), ("mul", "truediv", 0), ("add", "sub", 1), ("add", "sub", 0), ("sub", "add", 1), ("xor", "xor", 1), ("xor", "xor", 0),
             ("mul", "floordiv", 1), ("mul", "mod", 1), ("or", "and", 0), ("and", "or", 1), ("floordiv", "mul", 1), ("mod", "add", 1),
             ("lt", "mul", 0), ("eq", "add", 1), ("sub", "lt", 0), ("add", "mul", 0), ("mul", "add", 1)]
    for a, c in vals:
        for op1, op2, which in pairs:
            for kinds in (("priv", "priv"), ("priv", "pub")):
                stmts = [["in", kinds[0], "I", a], ["in", kinds[1], "I", c], ["op", op1, [0, 1]], ["op", op2, [2, which]], ["op", "mul", [3, 3]]]
                progs.append({"cfg": {"p": p, "b": b, "r": r, "ignore": False}, "stmts": stmts})
        for k in (1, 2, b - 1):
            for tail in (["op", "or", [3, 1]], ["op", "xor", [3, 1]], ["op", "and", [1, 3]], ["op", "lshift", [3, 2]], ["op", "add", [3, 3]]):
                stmts = [["in", "priv", "I", abs(a)], ["in", "priv", "I", (lim - 1) ^ abs(c)], ["const", k], ["op", "rshift", [0, 2]], tail]
                progs.append({"cfg": {"p": p, "b": b, "r": r, "ignore": False}, "stmts": stmts})
            stmts = [["in", "priv", "I", abs(a)], ["const", k], ["op", "lshift", [0, 1]], ["op", "rshift", [2, 1]], ["op", "sub", [3, 0]]]
            progs.append({"cfg": {"p": p, "b": b, "r": r, "ignore": False}, "stmts": stmts})
        # scaled sums divided again, bits reassembled and checked, double negation / inversion, x ** 0 reused
        progs.append({"cfg": {"p": p, "b": b, "r": r, "ignore": False}, "stmts": [["in", "priv", "I", a], ["in", "priv", "I", c], ["const", 4], ["op", "mul", [1, 2]],
                                                                                ["op", "add", [0, 3]], ["op", "add", [4, 3]], ["op", "truediv", [5, 2]]]})
        progs.append({"cfg": {"p": p, "b": b, "r": r, "ignore": False}, "stmts": [["in", "priv", "I", abs(a) % lim], ["op", "to_bits", [0]], ["op", "from_bits", [1]], ["op", "check_positive", [2]],
                                                                                ["op", "sub", [2, 0]]]})
        progs.append({"cfg": {"p": p, "b": b, "r": r, "ignore": False}, "stmts": [["in", "priv", "I", a], ["op", "neg", [0]], ["op", "neg", [1]], ["op", "abs", [1]], ["op", "sub", [2, 0]]]})
        progs.append({"cfg": {"p": p, "b": b, "r": r, "ignore": False}, "stmts": [["in", "priv", "I", a], ["const", 0], ["op", "pow", [0, 1]], ["op", "add", [2, 2]], ["op", "mul", [3, 0]], ["op", "val", [2]]]})
    # shifts by plain amounts up to and beyond the width of the field (limbs of big integers, packing at high offsets: hi << 256),
    # result used in a product and compared
    for k in list(range(0, 40, 3)) + list(range(240, 330)) + list(range(370, 400)) + [448, 511, 512, 513, 1000, 1024]:
        for a in (3, -5):
            progs.append({"cfg": {"p": p, "b": b, "r": r, "ignore": False}, "stmts": [["in", "priv", "I", a], ["const", k], ["op", "lshift", [0, 1]], ["op", "mul", [2, 0]], ["op", "eq", [2, 0]]]})
    # bit lists with plain and secret entries in every arrangement (public fields packed next to secret ones), then used:
    # squared, revealed, compared with a secret
    import itertools
    for pat in itertools.product("ps", repeat=3):
        if len(set(pat)) == 1:
            continue
        for bits in ((1, 1, 1), (1, 0, 1), (0, 1, 0)):
            stmts = [["in", "priv", "I", v] if k == "s" else ["const", v] for k, v in zip(pat, bits)]
            stmts += [["const", 0], ["op", "frombits_mixed", [0, 1, 2, 3]], ["op", "mul", [4, 4]], ["op", "val", [4]], ["op", "eq", [4, pat.index("s")]]]
            progs.append({"cfg": {"p": p, "b": b, "r": r, "ignore": False}, "stmts": stmts})
            stmts = [["in", "priv", "B", v] if k == "s" else ["const", bool(v)] for k, v in zip(pat, bits)]
            stmts += [["const", False], ["op", "blist_mixed", [0, 1, 2, 3]], ["op", "from_bits", [4]], ["op", "mul", [5, 5]], ["op", "val", [5]]]
            progs.append({"cfg": {"p": p, "b": b, "r": r, "ignore": False}, "stmts": stmts})
    return progs
