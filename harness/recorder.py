"""Recording backend: implements pysnark's eight-function backend interface and
keeps everything the library hands to a backend as plain data.

Installed by pre-seeding sys.modules["pysnark.nobackend"] (see harness.env) so
that pysnark.runtime's own stage-1 selection picks it up; no edit to /repo.

Variables are integers: 0 is the constant-one wire, k>0 in creation order.
kinds[k] in {"one","pub","priv"}, vals[k] is the (unreduced) integer given.
Constraints are triples of dicts var->int coefficient (unreduced).
"""

BN128 = 21888242871839275222246405745257275088548364400416034343698204186575808495617
BLS12_381 = 52435875175126190479447740508185965837690552500527637822603658699938581184513
CURVE25519 = 7237005577332262213973186563042994240857116359379907606001950938285454250989
REAL_FIELDS = {"bn128": BN128, "bls12-381": BLS12_381, "curve25519": CURVE25519}

P = BN128
vals = [1]
kinds = ["one"]
cons = []
log = []          # call log (name, var or None)
tags = []         # optional tag per constraint (e.g. context)
current_tag = None


class LC:
    """immutable linear combination: dict var -> integer coefficient"""
    __slots__ = ("d",)

    def __init__(self, d):
        self.d = d

    def __add__(self, other):
        d = dict(self.d)
        for k, v in other.d.items():
            d[k] = d.get(k, 0) + v
        return LC(d)

    def __sub__(self, other):
        return self + (-other)

    def __mul__(self, k):
        if not isinstance(k, int):
            raise TypeError("recorder LC can only be scaled by int, got %r" % type(k))
        return LC({a: b * k for a, b in self.d.items()})

    def __neg__(self):
        return self * -1

    def __repr__(self):
        return "LC(%r)" % (self.d,)


def reset(p=None):
    global P, current_tag
    if p is not None:
        P = p
    del vals[1:]
    del kinds[1:]
    del cons[:]
    del log[:]
    del tags[:]
    current_tag = None


def privval(val):
    vals.append(val)
    kinds.append("priv")
    log.append(("priv", len(vals) - 1))
    return LC({len(vals) - 1: 1})


def pubval(val):
    vals.append(val)
    kinds.append("pub")
    log.append(("pub", len(vals) - 1))
    return LC({len(vals) - 1: 1})


def zero():
    return LC({})


def one():
    return LC({0: 1})


def fieldinverse(val):
    if val % P == 0:
        raise ZeroDivisionError
    return pow(val, P - 2, P)


def get_modulus():
    return P


def add_constraint(v, w, y):
    cons.append((v.d, w.d, y.d))
    tags.append(current_tag)
    log.append(("con", len(cons) - 1))


prove_calls = 0
process_snark = None   # runtime.final() reads this attribute when autoprove is off


def prove():
    global prove_calls
    prove_calls += 1


def snapshot():
    """deep, plain-data copy of the trace"""
    return {
        "p": P,
        "vals": list(vals),
        "kinds": list(kinds),
        "cons": [(dict(a), dict(b), dict(c)) for a, b, c in cons],
    }
