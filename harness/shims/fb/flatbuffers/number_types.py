class _F(object):
    def __init__(self, bw): self.bytewidth = bw
    @staticmethod
    def py_type(x): return int(x)
UOffsetTFlags = _F(4); SOffsetTFlags = _F(4); VOffsetTFlags = _F(2)
Uint8Flags = _F(1); Uint16Flags = _F(2); Uint32Flags = _F(4); Uint64Flags = _F(8)
Int8Flags = _F(1); Int16Flags = _F(2); Int32Flags = _F(4); Int64Flags = _F(8); BoolFlags = _F(1)
