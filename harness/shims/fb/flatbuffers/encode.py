"""not needed for writing"""
