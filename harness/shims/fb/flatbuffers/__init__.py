"""Minimal pure-Python stand-in for the `flatbuffers` package (absent from this sandbox and from the
wheelhouse), sufficient for pysnark.zkinterface: a Builder producing the FlatBuffers wire format
(tables with vtables, vectors, size-prefixed finish). Trusted stand-in: the checks judge pysnark's USE
of the builder (ids, values, slots, message order), not the builder. The files it produces are read
back by harness/decoders/fbreader.py, which is written from the wire-format rules and shares no code
with this module."""
from . import number_types, compat, table, encode, packer, util   # noqa: F401


class Builder(object):
    def __init__(self, initialSize=1024):
        if initialSize <= 0:
            initialSize = 16
        self.Bytes = bytearray(initialSize)
        self.head = initialSize
        self.minalign = 1
        self.current_vtable = None
        self.objectEnd = None
        self.nested = False
        self.finished = False
        self.vectorNumElems = None

    # ---- low level
    def Head(self):
        return self.head

    def Offset(self):
        return len(self.Bytes) - self.head

    def _grow(self):
        old = self.Bytes
        n = len(old) * 2
        new = bytearray(n)
        new[n - len(old):] = old
        self.head += n - len(old)
        self.Bytes = new

    def Pad(self, n):
        for _ in range(n):
            self._place(0, 1)

    def Prep(self, size, additionalBytes):
        if size > self.minalign:
            self.minalign = size
        alignSize = (~(len(self.Bytes) - self.head + additionalBytes)) + 1
        alignSize &= (size - 1)
        while self.head < alignSize + size + additionalBytes:
            self._grow()
        self.Pad(alignSize)

    def _place(self, x, nbytes, signed=False):
        self.head -= nbytes
        self.Bytes[self.head:self.head + nbytes] = int(x).to_bytes(nbytes, "little", signed=signed)

    def _prepend(self, x, nbytes, signed=False):
        self.Prep(nbytes, 0)
        self._place(x, nbytes, signed)

    # ---- scalars
    def PrependByte(self, x): self._prepend(x, 1)
    def PrependUint8(self, x): self._prepend(x, 1)
    def PrependBool(self, x): self._prepend(1 if x else 0, 1)
    def PrependUint16(self, x): self._prepend(x, 2)
    def PrependUint32(self, x): self._prepend(x, 4)
    def PrependUint64(self, x): self._prepend(x, 8)
    def PrependInt32(self, x): self._prepend(x, 4, True)
    def PrependInt64(self, x): self._prepend(x, 8, True)

    def PrependUOffsetTRelative(self, off):
        self.Prep(4, 0)
        if not off <= self.Offset():
            raise ValueError("flatbuffers: Offset arithmetic error.")
        self._place(self.Offset() - off + 4, 4)

    def PrependSOffsetTRelative(self, off):
        self.Prep(4, 0)
        self._place(self.Offset() - off + 4, 4, True)

    # ---- vectors
    def StartVector(self, elemSize, numElems, alignment):
        if self.nested:
            raise RuntimeError("flatbuffers: object serialization must not be nested.")
        self.nested = True
        self.vectorNumElems = numElems
        self.Prep(4, elemSize * numElems)
        self.Prep(alignment, elemSize * numElems)
        return self.Offset()

    def EndVector(self, numElems=None):
        if not self.nested:
            raise RuntimeError("flatbuffers: EndVector without StartVector")
        self.nested = False
        self._place(self.vectorNumElems if numElems is None else numElems, 4)
        self.vectorNumElems = None
        return self.Offset()

    # ---- tables
    def StartObject(self, numfields):
        if self.nested:
            raise RuntimeError("flatbuffers: object serialization must not be nested.")
        self.current_vtable = [0] * numfields
        self.objectEnd = self.Offset()
        self.nested = True

    def Slot(self, slotnum):
        self.current_vtable[slotnum] = self.Offset()

    def _slot(self, o, x, d, fn):
        if x != d:
            fn(x)
            self.Slot(o)

    def PrependUint8Slot(self, o, x, d): self._slot(o, x, d, self.PrependUint8)
    def PrependByteSlot(self, o, x, d): self._slot(o, x, d, self.PrependByte)
    def PrependBoolSlot(self, o, x, d): self._slot(o, x, d, self.PrependBool)
    def PrependUint16Slot(self, o, x, d): self._slot(o, x, d, self.PrependUint16)
    def PrependUint32Slot(self, o, x, d): self._slot(o, x, d, self.PrependUint32)
    def PrependUint64Slot(self, o, x, d): self._slot(o, x, d, self.PrependUint64)
    def PrependInt32Slot(self, o, x, d): self._slot(o, x, d, self.PrependInt32)
    def PrependInt64Slot(self, o, x, d): self._slot(o, x, d, self.PrependInt64)

    def PrependUOffsetTRelativeSlot(self, o, x, d):
        if x != d:
            self.PrependUOffsetTRelative(x)
            self.Slot(o)

    def EndObject(self):
        if not self.nested:
            raise RuntimeError("flatbuffers: EndObject without StartObject")
        self.PrependSOffsetTRelative(0)          # placeholder for the vtable offset
        objectOffset = self.Offset()
        vt = list(self.current_vtable)
        while vt and vt[-1] == 0:
            vt.pop()
        for i in range(len(vt) - 1, -1, -1):
            off = objectOffset - vt[i] if vt[i] != 0 else 0
            self._prepend(off, 2)
        self._prepend(objectOffset - self.objectEnd, 2)
        self._prepend((len(vt) + 2) * 2, 2)
        objectStart = len(self.Bytes) - objectOffset
        self.Bytes[objectStart:objectStart + 4] = int(self.Offset() - objectOffset).to_bytes(4, "little", signed=True)
        self.current_vtable = None
        self.nested = False
        return objectOffset

    # ---- finish
    def _finish(self, root, sizePrefix):
        prep = 4 + (4 if sizePrefix else 0)
        self.Prep(self.minalign, prep)
        self.PrependUOffsetTRelative(root)
        if sizePrefix:
            self.PrependInt32(len(self.Bytes) - self.head)
        self.finished = True
        return self.head

    def Finish(self, root, file_identifier=None):
        return self._finish(root, False)

    def FinishSizePrefixed(self, root, file_identifier=None):
        return self._finish(root, True)

    def Output(self):
        if not self.finished:
            raise RuntimeError("flatbuffers: Builder not finished")
        return bytes(self.Bytes[self.head:])
