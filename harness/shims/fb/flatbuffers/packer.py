"""not needed for writing"""
