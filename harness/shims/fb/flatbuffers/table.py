class Table(object):
    """reading through the generated accessors is not supported by the stand-in"""
    def __init__(self, buf, pos): self.Bytes, self.Pos = buf, pos
