"""not needed for writing"""
