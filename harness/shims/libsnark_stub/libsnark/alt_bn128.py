"""Import-only stand-in for the native libsnark binding: makes pysnark.libsnark.backend LOADABLE so that
backend selection (C19) can be exercised. Arithmetic is a plain dict LC; never used to judge C13."""
_P = 21888242871839275222246405745257275088548364400416034343698204186575808495617


class ProtoboardPub(object):
    def __init__(self): self.vals, self.pub, self.cons = [], [], []
    def setval(self, v, val): self.vals[v.ix] = val
    def setpublic(self, v): self.pub.append(v.ix)
    def add_r1cs_constraint(self, c): self.cons.append(c)


class PbVariable(object):
    def allocate(self, pb):
        pb.vals.append(0)
        self.ix = len(pb.vals)


class LinearCombination(object):
    def __init__(self, x=None):
        if x is None: self.d = {}
        elif isinstance(x, int): self.d = {0: x}
        else: self.d = {x.ix: 1}
    def _new(self, d):
        r = LinearCombination(); r.d = d; return r
    def __add__(self, o):
        d = dict(self.d)
        for k, v in o.d.items(): d[k] = d.get(k, 0) + v
        return self._new(d)
    def __sub__(self, o): return self + (-o)
    def __mul__(self, k): return self._new({a: b * k for a, b in self.d.items()})
    def __neg__(self): return self * -1


class R1csConstraint(object):
    def __init__(self, a, b, c): self.a, self.b, self.c = a, b, c


def fieldinverse(v): return pow(v, _P - 2, _P)
def get_modulus(): return _P
