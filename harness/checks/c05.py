"""C05: traced integer/boolean arithmetic agrees with Python semantics, or raises."""
import itertools

from hypothesis import given, strategies as st

from harness import core, ir, opgrid, refsem, env
from harness.recorder import REAL_FIELDS

RULE_PROGRAMS = (" (d) multi-statement programs of integer/boolean operations (incl. augmented assignment, copies, repeated operands) "
                 "against a Python model kept by the harness: every result is compared with the reference applied to the MODEL values "
                 "of its operands, and every modelled value is read again at the end, so values changed behind the program's back surface.")
RULE = ("(operator, operand kinds incl. reflected forms and int/bool/LinCombBool mixes, operand values, bitlength). "
        "Grid part: every operator x every operand-type combination x the full operand square [-2^b-2, 2^b+2]^2 "
        "(booleans {0,1}) at small bitlengths, enumerated completely. Random part: Hypothesis cases at bitlength 2..32 "
        "on the three real fields with boundary-biased operands. Oracle: plain-Python reference; a returned value must "
        "be congruent (mod p) to Python's result and Python must not raise; inside the documented no-raise domain the "
        "call must return. Non-trivial = at least one secret operand and (non-linear operator or boundary-class "
        "operand); distinct by (op, types, values, bitlength).")
RULE += " Extensions (seeded rounds 10-15): every operation also after a refused call that the program caught, Python's numeric protocols (three-argument pow, int, round, floor, ceil, trunc, index: refused or Python's value), deterministic chains compared step by step with the Python model."


ARITH = {"add", "sub", "mul", "truediv", "floordiv", "mod", "divmod", "lshift", "rshift", "neg", "pos", "abs"}
NONLINEAR = set(refsem.BINARY + refsem.UNARY + refsem.TERNARY) - {"add", "sub", "neg", "pos"}
OPS = refsem.BINARY + refsem.UNARY + refsem.TERNARY + ["check_positive_n", "pow3"] + refsem.PROTOCOL


def judge(cfg, name, args):
    """the operation as a binary operator and, where Python has one, as an augmented assignment on a secret left operand"""
    res, prog = _judge(cfg, name, args, None)
    if res is None and name in ir.INPLACE and args[0][0] in "IBF":
        res, prog = _judge(cfg, name, args, "inplace")
        if res is not None:
            res = (res[0], "augmented assignment: " + res[1])
    if res is None:
        # the user's global ignore_errors(True) (examples/sudoku.py): operations that are valid must give the same values
        res, prog = _judge(cfg, name, args, "ignore")
        if res is not None:
            res = (res[0], "with ignore_errors(True): " + res[1])
    if res is None and any(a[0] in "IBF" for a in args):
        # a history with a failure in it: some other call on the operand was refused (division by zero, failed assertion,
        # unsupported operand, out-of-range width or index ...), the program caught the exception and went on with this operation
        res, prog = _judge(cfg, name, args, "after-failure")
        if res is not None:
            res = (res[0], "after a refused call that the program caught: " + res[1])
    if res is None and len(args) == 2 and args[0][0] in "IBF" and list(args[0]) == list(args[1]):
        res, prog = _judge(cfg, name, args, "alias")
        if res is not None:
            res = (res[0], "the same object as both operands: " + res[1])
    return res, prog


def _judge(cfg, name, args, variant):
    """returns None or (kind, message); kind in wrong-value | returned-where-python-raises | raised-in-core"""
    ts = "".join(a[0] for a in args)
    if any(a[0] == "B" and a[2] not in (0, 1) for a in args):
        return None, None        # not a boolean: no such input exists outside error suppression
    vals = [a[2] for a in args]
    cfg = dict(cfg)
    prog = opgrid.single(cfg, name, args, "ignore" if variant == "ignore" else "normal", inplace=variant == "inplace", alias=variant == "alias",
                         prefail=(int(core.jdigest([name, ts, [str(v) for v in vals]]), 16) % 16) if variant == "after-failure" else None)
    m = ir.run_program(prog)
    cfg["_p"] = m.p
    exp = refsem.ref(name, vals, ts, cfg)
    n = len(args)
    if variant == "ignore" and (exp is refsem.RAISES or exp is refsem.SKIP or not refsem.in_core(name, vals, ts, cfg)):
        return None, prog        # with errors suppressed only the valid cases have a defined value
    if variant == "alias":
        n, args = 1, args[:1]
    if m.raised is not None:
        if len(m.vals) < n:
            return None, prog    # an input could not even be created (e.g. PrivValBool(2))
        if exp is not refsem.RAISES and exp is not refsem.SKIP and refsem.in_core(name, vals, ts, cfg):
            e = m.raised[1]
            return ("raised-in-core", "%s%r on %s raised %s: %s inside the documented domain (Python gives %r)" % (
                name, tuple(vals), ts, type(e).__name__, e, exp[1:])), prog
        return None, prog
    got, gts = opgrid.results(m, n)
    # an operator must not alter its operands: their reported values are the ones they were created with
    for i, a in enumerate(args):
        if a[0] in "IB" and m.refval(i) != int(a[2]):
            return ("operand-altered", "%s%r on %s changed the reported value of operand %d from %d to %d" % (
                name, tuple(vals), ts, i, int(a[2]), m.refval(i))), prog
    if exp is refsem.SKIP:
        return None, prog
    ex = explain(name, ts, vals, got)
    if exp is refsem.RAISES:
        return ("returned-where-python-raises" + ex, "%s%r on %s returned %r where Python raises" % (name, tuple(vals), ts, got)), prog
    want = list(exp[1:])
    # arithmetic on booleans yields integers (True + True == 2, 1 - True == 0 is an int): the result is an integer value
    # whose later uses are integer operations, not a boolean whose |, ^, <, // mean something else
    if name in ARITH and any(t not in "Ii" for t in gts) and ts != "B" * len(ts):
        return ("wrong-kind", "%s%r on %s returned a value of kind %r; Python's result is an int" % (name, tuple(vals), ts, "".join(gts))), prog
    if len(got) != len(want) or any(not isinstance(g, int) for g in got):
        return ("wrong-value", "%s%r on %s returned %r (types %s), Python gives %r" % (name, tuple(vals), ts, got, gts, want)), prog
    for g, w in zip(got, want):
        if abs(w) >= m.p // 2 and not (name == "pow" and ts[1] in "IB"):     # secret-exponent pow: the reference is already the field element
            continue
        if (g - w) % m.p:
            return ("wrong-value" + ex, "%s%r on %s returned %r, Python gives %r" % (name, tuple(vals), ts, got, want)), prog
        # the reported value is the Python integer itself, not just something congruent to it; only the secret-exponent
        # power (and the shifts built on it) are documented to reduce modulo the field order
        if g != w and not (name in ("pow", "lshift", "rshift") and ts[1] in "IB"):
            return ("wrong-value" + ex, "%s%r on %s returned %r, Python gives %r (congruent modulo the field order, but not the integer)" % (
                name, tuple(vals), ts, got, want)), prog
    return None, prog


def bucket(name, ts, kind):
    return "%s.%s.%s" % (name, ts, kind)


def explain(name, ts, vals, got):
    """root-cause refinement of a bucket: which known mechanism explains the wrong result"""
    if name == "pow" and ts[0] == "B" and ts[1] in "IB" and got == [int(vals[0])]:
        return ":exponent-ignored"       # LinCombBool.__pow__ returns (b != 0) whatever the secret exponent
    return ""


def record(stats, known, res, prog, name, ts, found):
    if res is None:
        return
    kind, msg = res
    key = bucket(name, ts, kind)
    if key in known:
        stats.excluded[key] += 1
        return
    if key not in found:
        found[key] = {"case": prog, "msg": msg, "key": key}


def grid_shard(cells, b, p):
    """cells: list of (opname, ts). Exhaustive operand grid for each cell."""
    stats = core.Stats()
    known = core.load_known("C05")
    found = {}
    cfg = {"p": p, "b": b, "r": 0, "ignore": False}
    lim = 1 << b
    for name, ts in cells:
        pools = [opgrid.value_pool(t, b) for t in ts]
        if name in refsem.TERNARY:
            pools = [pools[0], [-lim - 1, -1, 0, 1, lim - 1, lim + 1], [-2, 0, 3, lim]]
        if name == "pow":
            pools[1] = [v for v in pools[1] if v <= lim + 1]
        for pos, (kind_, lo_, hi_) in ir.OPS[name].params.items():
            pools[pos] = list(range(-1, b + 3))          # width / count parameters: small non-negative ints (and -1)
        kinds = ["priv" if i % 2 == 0 else "pub" for i in range(len(ts))]
        for vals in itertools.product(*pools):
            args = [(t, k, v) for t, k, v in zip(ts, kinds, vals)]
            res, prog = judge(cfg, name, args)
            boundary = any(isinstance(v, int) and (abs(v) in (lim, lim - 1, lim + 1, lim // 2, lim // 2 - 1) or v == 0) for v in vals)
            nt = (name in NONLINEAR) or boundary
            stats.case([name, ts, list(vals), b], nt, ("op:" + name, "kinds:%s:%s" % (name, ts)), sample_cap=3)
            record(stats, known, res, prog, name, ts, found)
    stats.violations = list(found.values())
    return stats


def pow_grid_shard(b, p):
    """secret exponents around the bit lengths of the fields (a result is a field element whatever its integer size)"""
    stats = core.Stats()
    known = core.load_known("C05")
    found = {}
    cfg = {"p": p, "b": b, "r": 0, "ignore": False}
    lim = 1 << b
    exps = sorted({e for e in [0, 1, 2, 3, 127, 128, 252, 253, 254, 255, 256, 257, 300, 1000, lim // 2, lim - 1] if 0 <= e < lim})
    for ts in ("II", "iI"):
        for x in (-3, -2, -1, 0, 1, 2, 3, 7):
            for e in exps:
                args = [(ts[0], "priv", x), ("I", "priv", e)]
                res, prog = judge(cfg, "pow", args)
                stats.case(["pow", ts, [x, e], b], True, ("op:pow", "pow-grid"), sample_cap=2)
                record(stats, known, res, prog, "pow", ts, found)
    stats.violations = list(found.values())
    return stats


def wide_grid_shard(p):
    """operands that need more than 53 bits (bitlength 64): integer arithmetic must stay exact"""
    stats = core.Stats()
    known = core.load_known("C05")
    found = {}
    cfg = {"p": p, "b": 64, "r": 0, "ignore": False}
    base = [(1 << 61) + 11, (1 << 53) + 1, (1 << 62) - 1, -((1 << 61) + 7), 3 * ((1 << 60) + 1), (1 << 63) - 25, 12345678901234567891]
    divs = [1, 3, 7, -5, (1 << 20) + 1, (1 << 31) - 1]
    for name in ("truediv", "floordiv", "mod", "mul", "add", "sub", "lt", "ge", "eq"):
        for ts in ("II", "Ii", "iI"):
            for x in base:
                for d in divs:
                    for xx in ((x, d), (x * d, d), (d * 3, x)):
                        args = [(ts[0], "priv", xx[0]), (ts[1], "pub", xx[1])]
                        res, prog = judge(cfg, name, args)
                        stats.case([name, ts, list(xx), 64], True, ("op:" + name, "wide-grid"), sample_cap=1)
                        record(stats, known, res, prog, name, ts, found)
    stats.violations = list(found.values())
    return stats


def draw_case(draw):
    b = draw(st.sampled_from([2, 3, 4, 5, 8, 16, 16, 32, 64]))
    cfg = {"p": draw(st.sampled_from(sorted(REAL_FIELDS))), "b": b, "r": 0, "ignore": False}
    name = draw(st.sampled_from(OPS))
    combos = [ts for ts in opgrid.type_combos(name) if "F" not in ts and "f" not in ts]
    ts = draw(st.sampled_from(combos))
    lim = 1 << b
    ints = st.one_of(st.integers(-3, 3), st.integers(-lim - 2, lim + 2), st.integers(0, lim - 1),
                     st.sampled_from([lim, lim - 1, lim + 1, -lim, lim // 2, lim // 2 - 1, -lim // 2, -lim // 2 - 1]))
    args = []
    for pos, t in enumerate(ts):
        if t in "Bb":
            v = draw(st.integers(0, 1))
        elif name == "pow" and pos == 1:
            v = draw(st.one_of(st.integers(-1, min(lim + 1, 40)), st.integers(0, lim - 1),
                               st.sampled_from([lim - 1, lim, 127, 128, 253, 254, 255, 256, 257, 300, 1000]))) if t in "I" else draw(st.integers(-1, min(lim + 1, 40)))
        elif name in ("lshift", "rshift") and pos == 1:
            v = draw(st.integers(-2, b + 3))
        elif pos in ir.OPS[name].params:
            v = draw(st.integers(-1, b + 3))
        else:
            v = draw(ints)
        if t == "b":
            v = bool(v)
        args.append((t, draw(st.sampled_from(["priv", "pub"])), v))
    if name == "truediv" and "B" not in ts and "b" not in ts and draw(st.booleans()):
        # exact division with a wide dividend: x = q * y
        y = args[1][2]
        q = draw(st.one_of(ints, st.integers(-(lim * lim), lim * lim)))
        if y:
            args[0] = (args[0][0], args[0][1], q * y)
    return cfg, name, ts, args


def random_shard(seed, n_examples):
    stats = core.Stats()
    known = core.load_known("C05")

    @given(st.data())
    def test(data):
        cfg, name, ts, args = draw_case(data.draw)
        ts = "".join(ts)
        res, prog = judge(cfg, name, args)
        lim = 1 << cfg["b"]
        vals = [a[2] for a in args]
        boundary = any(abs(int(v)) in (lim, lim - 1, lim + 1, lim // 2) for v in vals)
        stats.case([name, ts, [int(v) for v in vals], cfg["b"], cfg["p"]], name in NONLINEAR or boundary,
                   ("op:" + name, "kinds:%s:%s" % (name, ts), "bitlength:%d" % cfg["b"]), sample_cap=3)
        if res is not None:
            key = bucket(name, ts, res[0])
            if key in known:
                stats.excluded[key] += 1
            else:
                raise core.Violation(prog, res[1], key)

    v = core.drive(test, seed, n_examples)
    if v is not None:
        stats.violations.append({"case": v.case, "msg": v.msg, "key": v.key})
    return stats


def bigpow_shard(p):
    """constant exponents in the hundreds (x ** 255 ... x ** 769: long product chains, deep recursion in the library): Python's
    integer, or a refusal (RecursionError counts as one)"""
    stats = core.Stats()
    known = core.load_known("C05")
    found = {}
    cfg = {"p": p, "b": 16, "r": 0, "ignore": False}
    for n in (63, 64, 65, 127, 128, 129, 255, 256, 257, 258, 300, 511, 512, 513, 514, 600, 768, 769, 770):
        for x in (2, -2, 3, 1, 0, -1):
            args = [("I", "priv", x), ("i", None, n)]
            res, prog = _judge(cfg, "pow", args, None)
            stats.case(["pow", "Ii", [x, n]], True, ("pow:exponent>=63",), sample_cap=1)
            if res is not None:
                record(stats, known, res, prog, "pow", "Ii", found)
    stats.violations = list(found.values())
    return stats


def chain_shard(b, p):
    """deterministic chains (ir.chain_programs): the output of one operation, with the internal form that operation gave it, is the
    input of the next together with the first operation's own operands; every step is compared with the Python model"""
    stats = core.Stats()
    known = core.load_known("C05")
    found = {}
    for prog in ir.chain_programs(b, p):
        msg, n = model_check(prog)
        stats.case(prog, n >= 2, ("chain:" + "-".join(s_[1] for s_ in prog["stmts"] if s_[0] == "op")[:40],), sample_cap=1)
        if msg:
            key = "chain." + "-".join(s_[1] for s_ in prog["stmts"] if s_[0] == "op")
            found.setdefault(key, {"case": dict(prog, chain=True), "key": key, "msg": msg})
    stats.violations = list(found.values())
    return stats


def model_check(prog):
    """Multi-statement program against a Python model kept by the harness: every integer/boolean value is modelled by the
    value the reference semantics gives for its operation on the MODEL values of its operands, so a wrong result and an
    earlier value changed behind the program's back both surface; at the end every modelled value is read again.
    Returns (message or None, number of operations compared)."""
    model = {}
    compared = [0]
    msgbox = []

    def after(m, stmt, out):
        if msgbox:
            return
        n = len(m.vals)
        if stmt[0] in ("in", "const"):
            if m.types[n - 1] in "IBib" and (n - 1) not in model:
                model[n - 1] = int(m.refval(n - 1))
            return
        if stmt[0] != "op" or stmt[1] not in OPS + ["copy", "deepcopy"] or out is None or out[0] != "ok":
            return
        refs = stmt[2]
        if any(i not in model for i in refs):
            return
        ts = "".join(m.types[i] for i in refs)
        vals = [model[i] if m.types[i] not in "b" else bool(model[i]) for i in refs]
        cfg = dict(m.cfg)
        cfg["_p"] = m.p
        exp = refsem.ref(stmt[1], vals, ts, cfg)
        new = list(out[1])
        if stmt[1] == "pow" and ts[0] == "B":
            exp = refsem.SKIP          # LinCombBool ** x: the recorded known finding, judged by the single-operation grid
        if exp is refsem.SKIP or exp is refsem.RAISES or not refsem.in_core(stmt[1], vals, ts, cfg):
            for i in new:
                if 0 <= i < n and m.types[i] in "IBib":
                    model[i] = int(m.refval(i))
            return
        want = list(exp[1:])
        if len(want) != len(new) or any(m.types[i] not in "IBib" for i in new):
            return
        for i, w in zip(new, want):
            g = int(m.refval(i))
            if abs(w) < m.p // 2 and (g - w) % m.p:
                msgbox.append("statement %r: result %d, the model (Python on the values the program created) gives %d; model operands %r, "
                              "operands as reported now %r" % (stmt, g, w, vals, [m.refval(j) for j in refs]))
            model[i] = w if abs(w) < m.p // 2 else g
        compared[0] += 1
    m = ir.run_program(prog, after=after)
    if msgbox:
        return msgbox[0], compared[0]
    if m.raised is None:
        for i, w in model.items():
            if i < len(m.vals) and m.types[i] in "IB" and (int(m.refval(i)) - w) % m.p:
                return "value v%d was %d when it was created and reports %d at the end of the program" % (i, w, int(m.refval(i))), compared[0]
    return None, compared[0]


def program_shard(seed, n_examples):
    stats = core.Stats()
    known = core.load_known("C05")
    int_ops = list(OPS) + ["copy", "deepcopy"]

    @given(st.data())
    def test(data):
        draw = data.draw
        cfg = {"p": draw(st.sampled_from(sorted(REAL_FIELDS))), "b": draw(st.sampled_from([4, 8, 16, 32])), "r": 0, "ignore": False}
        m, labels = ir.generate(draw, st, cfg, draw(st.integers(2, 8)), ops=int_ops, allow_guard=False, p_out_of_domain=0.0, wrap_values=False)
        prog = m.program()
        msg, ncmp = model_check(prog)
        stats.case(prog if ncmp >= 2 else None, ncmp >= 2, ("program", "ops-compared:%d" % min(ncmp, 6)))
        if msg:
            raise core.Violation(dict(prog, part="program"), msg, "program.model-disagrees")

    v = core.drive(test, seed, n_examples)
    if v is not None:
        stats.violations.append({"case": v.case, "msg": v.msg, "key": v.key})
    return stats


def replay(case):
    """case is the single-op program"""
    if case.get("part") == "program" or case.get("chain"):
        return model_check(case)[0]
    stmts = case["stmts"]
    opstmt = stmts[-1]
    args = []
    for s in stmts[:-1]:
        if s[0] == "in":
            args.append((s[2], s[1], s[3]))
        else:
            v = s[1]
            args.append(("b" if isinstance(v, bool) else "i", None, v))
    res, _ = judge(case["cfg"], opstmt[1], args)
    return None if res is None else res[1]


def cells():
    out = []
    for name in OPS:
        for ts in opgrid.type_combos(name):
            if "F" in ts or "f" in ts:
                continue
            out.append((name, "".join(ts)))
    return out


def run(ctx):
    ctx.rule = RULE + RULE_PROGRAMS
    ctx.assumptions = ["plain-Python reference semantics (harness/refsem.py), incl. the width-relative model for ~ on integers",
                       "values compared modulo the field prime; results with |true value| >= p/2 not compared"]
    cs = cells()
    jobs = []
    if ctx.tier == "quick":
        grids = [(3, "bn128")]
        nrand, nshards = 250, 16
    else:
        grids = [(2, 67), (3, 257), (3, "bls12-381"), (4, "bn128"), (5, "curve25519")]
        nrand, nshards = 6000, 16
    total = core.Stats()
    for b, p in grids:
        chunks = [cs[i::16] for i in range(16)]
        total.merge_json(core.run_shards("harness.checks.c05", "grid_shard",
                                         [dict(cells=c, b=b, p=p) for c in chunks]).to_json())
    total.merge_json(core.run_shards("harness.checks.c05", "pow_grid_shard",
                                     [dict(b=bb, p=pp) for bb, pp in ((16, "bn128"), (9, "bls12-381"), (32, "curve25519"))]).to_json())
    total.merge_json(core.run_shards("harness.checks.c05", "wide_grid_shard", [dict(p=pp) for pp in ("bn128", "bls12-381")]).to_json())
    total.merge_json(core.run_shards("harness.checks.c05", "random_shard",
                                     [dict(seed=ctx.seed * 1000 + i, n_examples=nrand) for i in range(nshards)]).to_json())
    total.merge_json(core.run_shards("harness.checks.c05", "bigpow_shard", [dict(p="bn128"), dict(p="curve25519")]).to_json())
    total.merge_json(core.run_shards("harness.checks.c05", "chain_shard", [dict(b=8, p="bn128"), dict(b=16, p="bls12-381"), dict(b=4, p="curve25519")]).to_json())
    total.merge_json(core.run_shards("harness.checks.c05", "program_shard",
                                     [dict(seed=ctx.seed * 1000 + 500 + i, n_examples=120 if ctx.tier == "quick" else 3000) for i in range(8)]).to_json())
    total.extra["grids_enumerated_completely"] = [{"bitlength": b, "field": p, "cells": len(cs)} for b, p in grids]
    ctx.exhaustive = False
    ctx.stats = total
    # known findings: replay witnesses
    replay_known(ctx, replay)


def replay_known(ctx, replay_fn):
    import json, os
    for key, what in ctx.known.items():
        path = os.path.join(core.ROOT, "findings", "%s-%s.json" % (ctx.pid, key))
        if not os.path.exists(path):
            raise core.HarnessError("known finding %s has no witness file %s" % (key, path))
        case = json.load(open(path))["case"]
        if replay_fn(case) is not None:
            ctx.known_still_failing.append((key, what))
