"""C18: proof artefacts are emitted at exit only for successful runs, and completely."""
import itertools
import json
import os
import shutil
import subprocess
import sys
import tempfile

from harness import core, backends
from harness.decoders import iden3, fbreader, qapfiles

LEVEL = "fault_enumeration"

RULE = ("fault enumeration: one fresh interpreter per (termination mode x statement position k in 0..N x file-writing "
        "backend in {snarkjs, zkinterface, qaptools} x autoprove on/off). The script traces N statements (one product "
        "constraint each) and terminates at position k by: falling off the end, sys.exit() / (0) / (None) / (False) / "
        "(1) / (-1) / (3) / (True) / ('msg') / ('') / ('0'), an uncaught ValueError / ZeroDivisionError / custom exception, KeyboardInterrupt, raise "
        "SystemExit / SystemExit(0) / SystemExit(3), builtin exit(0) / exit(3), an exception raised and caught, a "
        "sys.exit(3) caught by the script which then ends normally, and histories of two exit requests (a caught or "
        "thread-local sys.exit(0) followed by sys.exit(3) / a message / an exception, try: sys.exit(a) finally: sys.exit(b)). A prologue counts calls of backend.prove in a side "
        "file and an interface-level tap counts the constraints and values handed to the backend; a second statement flavour "
        "mixes products with assert_ne / assert_nonzero / comparisons / secret divisions / bit decompositions. Oracle: the exit status is the one plain Python gives for that termination; status 0 and autoprove on => "
        "prove ran exactly once and the artefacts decode (independent decoders) to exactly the constraints of the "
        "statements executed; uncaught exception or status != 0 => prove did not run and no artefact exists; autoprove "
        "off => no artefact and no traceback from the exit hook on stderr, also when the script assigns runtime.operation (prove / keygen / verify, as the libsnark examples do) on a backend that has no use for it. Non-trivial = termination before the end by a "
        "failing mode, or a complete run; distinct by (mode, position, N, backend, autoprove). quick: N=3, positions "
        "{0,1,3}; thorough: every position for N in 1..6 (the space is finite and enumerated completely).")
RULE += " Extensions (seeded rounds 10-15): runtime.operation assigned by the script, the library first imported by a helper thread, start-up modes (-i, -O, -c, -m, stdin, runpy), exception objects with unusual data models, sub-circuit calls on qaptools, scripts that run more or fewer statements than plain Python would."


# mode -> (python source of the termination, expected exit status, script continues after it)
MODES = {
    "end":              (None, 0, False),
    "sys.exit()":       ("sys.exit()", 0, False),
    "sys.exit(0)":      ("sys.exit(0)", 0, False),
    "sys.exit(None)":   ("sys.exit(None)", 0, False),
    "sys.exit(False)":  ("sys.exit(False)", 0, False),
    "sys.exit(3)":      ("sys.exit(3)", 3, False),
    "sys.exit('msg')":  ("sys.exit('msg')", 1, False),
    "sys.exit('')":     ("sys.exit('')", 1, False),
    "sys.exit('0')":    ("sys.exit('0')", 1, False),
    "sys.exit(True)":   ("sys.exit(True)", 1, False),
    "sys.exit(1)":      ("sys.exit(1)", 1, False),
    "sys.exit(-1)":     ("sys.exit(-1)", 255, False),
    "ValueError":       ("raise ValueError('boom')", 1, False),
    "ZeroDivisionError": ("1/0", 1, False),
    "custom":           ("raise type('Custom', (Exception,), {})('x')", 1, False),
    # exception objects with unusual data-model behaviour: unhashable (a dataclass exception: __eq__ without __hash__), falsy,
    # with a __str__ / __repr__ that raises, compared equal to everything
    "unhashable-exception": ("raise type('Unhashable', (Exception,), {'__eq__': lambda a, b: a is b, '__hash__': None})('x')", 1, False),
    "falsy-exception":  ("raise type('Falsy', (Exception,), {'__bool__': lambda a: False, '__len__': lambda a: 0})()", 1, False),
    "unprintable-exception": ("raise type('Unprintable', (Exception,), {'__str__': lambda a: 1 / 0, '__repr__': lambda a: 1 / 0})()", 1, False),
    "equal-to-all-exception": ("raise type('EqAll', (Exception,), {'__eq__': lambda a, b: True, '__ne__': lambda a, b: False, '__hash__': lambda a: 0})()", 1, False),
    # application errors that carry attributes named like those of exit requests (code, args, errno, returncode)
    "exception-with-code-None": ("raise type('AppError', (Exception,), {'code': None})('x')", 1, False),
    "exception-with-code-0": ("raise type('AppError', (Exception,), {'code': 0, 'returncode': 0, 'errno': 0, 'status': 0, 'exitcode': 0})('x')", 1, False),
    "exception-with-code-3": ("raise type('AppError', (Exception,), {'code': 3})('x')", 1, False),
    "KeyboardInterrupt": ("raise KeyboardInterrupt", "sigint", False),
    "raise SystemExit": ("raise SystemExit", 0, False),
    "raise SystemExit(0)": ("raise SystemExit(0)", 0, False),
    "raise SystemExit(3)": ("raise SystemExit(3)", 3, False),
    "exit(0)":          ("exit(0)", 0, False),
    "exit(3)":          ("exit(3)", 3, False),
    "caught":           ("try:\n    raise ValueError('boom')\nexcept ValueError:\n    pass", 0, True),
    "caught-1/0":       ("try:\n    1/0\nexcept ZeroDivisionError:\n    pass", 0, True),
    "caught sys.exit(3)": ("try:\n    sys.exit(3)\nexcept SystemExit:\n    pass", 0, True),
    # histories of several exit requests: the status of the process is the one of the last request that takes effect
    "caught sys.exit(0) then sys.exit(3)": ("try:\n    sys.exit(0)\nexcept SystemExit:\n    pass\nsys.exit(3)", 3, False),
    "caught sys.exit() then sys.exit('msg')": ("try:\n    sys.exit()\nexcept SystemExit:\n    pass\nsys.exit('msg')", 1, False),
    "caught sys.exit(3) then sys.exit(0)": ("try:\n    sys.exit(3)\nexcept SystemExit:\n    pass\nsys.exit(0)", 0, False),
    "sys.exit(0) finally sys.exit(4)": ("try:\n    sys.exit(0)\nfinally:\n    sys.exit(4)", 4, False),
    "sys.exit(4) finally sys.exit(0)": ("try:\n    sys.exit(4)\nfinally:\n    sys.exit(0)", 0, False),
    "thread sys.exit(0) then sys.exit(3)": ("import threading\n_t = threading.Thread(target=lambda: sys.exit(0))\n_t.start()\n_t.join()\nsys.exit(3)", 3, False),
    "caught sys.exit(0) then ValueError": ("try:\n    sys.exit(0)\nexcept SystemExit:\n    pass\nraise ValueError('boom')", 1, False),
    # the application installed its own sys.excepthook BEFORE importing pysnark, and that hook itself exits / fails
    "ValueError, user hook exits 3": ("raise ValueError('boom')", 3, False,
                                      "import traceback\ndef _hook(tp, ex, tb):\n    traceback.print_exception(tp, ex, tb)\n    raise SystemExit(3)\nsys.excepthook = _hook"),
    "ValueError, user hook raises": ("raise ValueError('boom')", 1, False,
                                     "def _hook(tp, ex, tb):\n    raise RuntimeError('hook broke')\nsys.excepthook = _hook"),
    "ValueError, user hook returns": ("raise ValueError('boom')", 1, False,
                                      "def _hook(tp, ex, tb):\n    sys.stderr.write('logged\\n')\nsys.excepthook = _hook"),
}
BACKENDS = ["snarkjs", "zkinterface", "qaptools"]
ARTEFACTS = {
    "snarkjs": ["witness.wtns", "circuit.r1cs"],
    "zkinterface": ["computation.zkif", "circuit.zkif"],
    "qaptools": ["pysnark_schedule", "pysnark_eqs_main", "pysnark_proof", "pysnark_masterek"],
}


STATEMENTS = {
    # flavour -> statement templates, cycled by position (i = position, a = i + 2, b = i + 3)
    "mul": ["x{i} = PrivVal({a}) * PubVal({b})"],
    "mixed": ["x{i} = PrivVal({a}) * PubVal({b})", "PrivVal({a} + 5).assert_ne(2)", "y{i} = PrivVal({a}) < PubVal({b} + 7)",
              "PrivVal(12).assert_nonzero()", "z{i} = PrivVal({a} * 6) / PrivVal(3)", "w{i} = PrivVal({a}).to_bits()",
              "v{i} = PrivVal({a}) != PrivVal({b})", "PubVal({a}).assert_ne(PrivVal({b}))"],
    # the output of a sub-circuit call (qaptools: a separate function context, tied to its caller by blocks; elsewhere a plain
    # function) feeds the next product: what reaches the backend between the first statement and the exit hook is a composition
    "calls": ["x{i} = _sq(PrivVal({a})) * PubVal({b})", "y{i} = _sq(_sq(PrivVal({a}))) + PrivVal({b}) * PrivVal({a})"],
}


def script(mode, k, n, autoprove, flavour="mul", chdir=False, operation=None, thread_import=False):
    term = MODES[mode][0]
    stm = STATEMENTS[flavour]
    prelude = MODES[mode][3] if len(MODES[mode]) > 3 else "pass"
    L = ["import sys", "import site", "import json", "import os", prelude,
         # the library is first imported by a helper thread (a computation started in a thread with a bigger stack, a lazy
         # import inside a worker): the script itself still ends in the main thread
         "import threading; _t = threading.Thread(target=lambda: __import__('pysnark.runtime')); _t.start(); _t.join()" if thread_import else "pass",
         "import pysnark.runtime as rt", "from pysnark.runtime import PrivVal, PubVal",
         # the script moves to its output directory after the imports: artefacts belong where the script is when it ends
         "os.makedirs('out'); os.chdir('out')" if chdir else "pass",
         "_orig = rt.backend.prove",
         "def _counted(*a, **kw):",
         "    open('prove_calls', 'a').write('x')",
         "    return _orig(*a, **kw)",
         "rt.backend.prove = _counted",
         # an interface-level tap: what the script handed to the backend, counted independently of the artefacts
         "_cnt = {'cons': 0, 'cons_ab': 0, 'vars': 0}",
         "_oa, _opv, _opb = rt.backend.add_constraint, rt.backend.privval, rt.backend.pubval",
         "def _ta(v, w, y):",
         "    _cnt['cons'] += 1",
         "    if str(v).strip() and str(w).strip(): _cnt['cons_ab'] += 1",
         "    return _oa(v, w, y)",
         "def _tpv(x):",
         "    _cnt['vars'] += 1",
         "    return _opv(x)",
         "def _tpb(x):",
         "    _cnt['vars'] += 1",
         "    return _opb(x)",
         "rt.backend.add_constraint, rt.backend.privval, rt.backend.pubval = _ta, _tpv, _tpb",
         "def _done(k=1):",
         "    open('executed', 'a').write('s' * k)",
         "    open('counts', 'w').write(json.dumps(_cnt))",
         "_sq = __import__('pysnark.qaptools.backend', fromlist=['subqap']).subqap('sq')(lambda t: t * t) if rt.backend_name == 'qaptools' else (lambda t: t * t)" if flavour == "calls" else "pass",
         "rt.autoprove = %s" % (False if autoprove == "off-then-on" else autoprove),
         # the libsnark examples set runtime.operation ("keygen"/"prove"/"verify"); other backends have no use for it
         "rt.operation = %r" % operation if operation is not None else "pass",
         "import builtins",
         "if not hasattr(builtins, 'exit'): site.setquit()"]
    if n > 50:
        # large trace: a loop instead of n source lines (only used with mode "end")
        L.append("for i in range(%d):" % n)
        L.append("    x = PrivVal(i + 2) * PubVal(i + 3)")
        L.append("_done(%d)" % n)
        return "\n".join(L) + "\n"
    for i in range(n + 1):
        if i == k and term is not None:
            L.append(term)
        if i < n:
            L.append(stm[i % len(stm)].format(i=i, a=i + 2, b=i + 3))
            L.append("_done()")
            if i == 0 and autoprove == "off-then-on":
                L.append("rt.autoprove = True      # switched off at the top, the script decides later that it wants a proof")
    return "\n".join(L) + "\n"


def expected_executed(mode, k, n):
    term, status, cont = MODES[mode][:3]
    if term is None or cont:
        return n
    return k


def run_case(case, tmp):
    """returns (message or None, key)"""
    mode, k, n, backend, autoprove = case["mode"], case["k"], case["n"], case["backend"], case["autoprove"]
    for f in os.listdir(tmp):
        if os.path.isdir(os.path.join(tmp, f)):
            shutil.rmtree(os.path.join(tmp, f))
        else:
            os.remove(os.path.join(tmp, f))
    flavour = case.get("flavour", "mul")
    chdir = bool(case.get("chdir"))
    open(os.path.join(tmp, "prog.py"), "w").write(script(mode, k, n, autoprove, flavour, chdir, case.get("operation"), bool(case.get("thread_import"))))
    envv = dict(os.environ)
    envv.update({"PYSNARK_BACKEND": backend, "QAPTOOLS_BIN": os.path.join(backends.SHIMS, "qapbin"),
                 "PYTHONPATH": backends.REPO + os.pathsep + os.path.join(backends.SHIMS, "fb") + core.COVPATH,
                 "PYTHONDONTWRITEBYTECODE": "1", "PYTHONHASHSEED": core.hashseed_for(case)})
    # how the script is started: as a file, with interpreter flags, as -c text, as a module, from standard input, through runpy
    launch = case.get("launch", "file")
    argv, stdin_text = {"file": (["prog.py"], None), "-i": (["-i", "prog.py"], ""), "-O": (["-O", "prog.py"], None),
                        "-c": (["-c", "exec(compile(open('prog.py').read(), 'prog.py', 'exec'))"], None),
                        "-m": (["-m", "prog"], None), "stdin": (["-"], open(os.path.join(tmp, "prog.py")).read()),
                        "runpy": (["-c", "import runpy; runpy.run_path('prog.py', run_name='__main__')"], None)}[launch]
    if launch == "-m":
        envv["PYTHONPATH"] = tmp + os.pathsep + envv["PYTHONPATH"]
    try:
        r = subprocess.run([sys.executable] + argv, cwd=tmp, env=envv, capture_output=True, text=True, input=stdin_text,
                           stdin=None if stdin_text is not None else subprocess.DEVNULL, timeout=120, start_new_session=True)
    except subprocess.TimeoutExpired:
        return "inconclusive", "timeout"
    base = os.path.join(tmp, "out") if chdir else tmp
    rd = lambda f: open(os.path.join(base, f), "rb").read()
    exists = lambda f: os.path.exists(os.path.join(base, f))
    if "rt.backend" in r.stderr and "AttributeError" in r.stderr and "prove" in r.stderr:
        raise core.HarnessError("prologue failed: %s" % r.stderr[-300:])
    if exists("prove_calls") is False and "No module named" in r.stderr:
        raise core.HarnessError("child could not import: %s" % r.stderr[-300:])
    term, status, cont = MODES[mode][:3]
    nexec = len(rd("executed")) if exists("executed") else 0
    want_exec = expected_executed(mode, k, n)
    if nexec != want_exec:
        # plain Python runs exactly want_exec statements of this script: more means an exit request / exception did not end it,
        # fewer means a traced statement itself failed - with the library in between, either is the library's doing
        return ("%s on %s: the script executed %d of its %d statements, plain Python semantics give %d (the termination is at position %d); stderr: %s" % (
            mode, backend, nexec, n, want_exec, k, r.stderr.strip()[-200:])), "script-flow"
    autoprove_label = autoprove
    if autoprove == "off-then-on":
        autoprove = nexec >= 1           # what the switch holds when the script ends
    tag = ("" if launch == "file" else "[started with %s] " % launch) + "%s on %s (autoprove %s, %d of %d %sstatements executed)" % (mode, backend, autoprove_label if autoprove_label == "off-then-on" else "on" if autoprove else "off", nexec, n,
                                                                     "" if flavour == "mul" else flavour + " ")
    cnt = json.loads(rd("counts")) if exists("counts") else {"cons": 0, "cons_ab": 0, "vars": 0}
    if flavour == "mul" and (cnt["cons"], cnt["vars"]) != (nexec, 3 * nexec):
        return "%s: the backend received %d constraints / %d values for %d product statements (1 constraint, 3 values each)" % (
            tag, cnt["cons"], cnt["vars"], nexec), "trace-incomplete-at-backend"
    # exit status
    if status == "sigint":
        ok_status = r.returncode in (-2, 130, 1)
        success = False
    else:
        # python -i: the interpreter reports the exception / ignores the exit request, offers a prompt and, with its input at
        # end-of-file, leaves with status 0 - the SCRIPT still ended the way the mode says
        ok_status = r.returncode == (0 if launch == "-i" else status)
        success = status == 0
    if not ok_status:
        return "%s: exit status %r, plain Python gives %r; stderr: %s" % (tag, r.returncode, status, r.stderr.strip()[-200:]), "status"
    calls = len(rd("prove_calls")) if exists("prove_calls") else 0
    arte = [f for f in ARTEFACTS[backend] if exists(f)]
    if chdir:
        stray = [f for f in ARTEFACTS[backend] if os.path.exists(os.path.join(tmp, f))]
        if stray:
            return "%s: the script had moved to its output directory, yet %r appeared in the directory it was started in" % (
                "%s on %s" % (mode, backend), stray), "artefact-in-import-directory"
    # a traceback that merely passes through pysnark's excepthook wrapper (the application's own hook raising) is not ours
    hook_tb = "Exception ignored in atexit callback" in r.stderr or ("in maybe_" in r.stderr and "Traceback" in r.stderr)
    if not autoprove:
        if calls or arte:
            return "%s: automatic proving is off but prove ran %d time(s), artefacts %r" % (tag, calls, arte), "autoprove-off-produced"
        if hook_tb:
            return "%s: the exit hook itself failed: %s" % (tag, r.stderr.strip().splitlines()[-1]), "exit-hook-fails"
        return None, None
    if not success:
        if calls or arte:
            return "%s: the script failed (status %r) but prove ran %d time(s), artefacts %r" % (tag, r.returncode, calls, arte), "proved-after-failure:" + mode
        return None, None
    if calls != 1:
        return "%s: the script ended with status 0 but prove ran %d time(s)" % (tag, calls), "not-proved-after-success:" + mode
    if hook_tb and backend != "qaptools":
        return "%s: traceback from the exit hook: %s" % (tag, r.stderr.strip().splitlines()[-1]), "exit-hook-fails"
    # artefacts decode to exactly the executed statements
    try:
        if backend == "snarkjs":
            c = iden3.read_r1cs(rd("circuit.r1cs"))
            w = iden3.read_wtns(rd("witness.wtns"))
            ncons, nw = len(c["constraints"]), len(w["values"])
            if ncons != cnt["cons"] or nw != 1 + cnt["vars"]:
                return "%s: artefacts hold %d constraints / %d wires, the executed statements traced %d / %d" % (tag, ncons, nw, cnt["cons"], 1 + cnt["vars"]), "incomplete-artefact"
        elif backend == "zkinterface":
            for f, kinds in (("computation.zkif", ["CircuitHeader", "Witness", "ConstraintSystem"]), ("circuit.zkif", ["CircuitHeader", "ConstraintSystem"])):
                msgs = fbreader.read_file(rd(f))
                got = [m[0] for m in msgs]
                ncs = got.count("ConstraintSystem")
                if ncs < 1 or got != kinds[:-1] + ["ConstraintSystem"] * ncs:
                    return "%s: %s has messages %r" % (tag, f, got), "incomplete-artefact"
                ncons = sum(len(m[1]["constraints"]) for m in msgs if m[0] == "ConstraintSystem")
                if ncons != cnt["cons"]:
                    return "%s: %s holds %d constraints, the executed statements traced %d" % (tag, f, ncons, cnt["cons"]), "incomplete-artefact"
        else:
            if not exists("pysnark_eqs_main") or not exists("pysnark_schedule"):
                return "%s: proving step ran but wrote no per-function equation file / schedule" % tag, "incomplete-artefact"
            eqs = qapfiles.parse_eqs(rd("pysnark_eqs_main").decode())
            if flavour == "calls":
                # several function contexts: every per-function file is well-formed, and the complete equation file holds the
                # product equations of all of them
                for f_ in os.listdir(base):
                    if f_.startswith("pysnark_eqs_"):
                        qapfiles.parse_eqs(rd(f_).decode())
                eqs = qapfiles.parse_eqs(rd("pysnark_eqs").decode())
            ncons = len([e for e in eqs if e[0] == "eq" and e[1] and e[2]])
            if ncons != cnt["cons_ab"]:
                return "%s: pysnark_eqs_main holds %d product equations, the executed statements traced %d" % (tag, ncons, cnt["cons_ab"]), "incomplete-artefact"
    except (iden3.FormatError, fbreader.FormatError, qapfiles.FormatError, OSError) as e:
        return "%s: artefact does not decode: %s" % (tag, e), "incomplete-artefact"
    return None, None


def shard(cases):
    stats = core.Stats()
    known = core.load_known("C18")
    found = {}
    tmp = tempfile.mkdtemp(prefix="verif-c18-")
    try:
        for case in cases:
            msg, key = run_case(case, tmp)
            key = key.replace(" ", "_") if key else key
            term, status, cont = MODES[case["mode"]][:3]
            failing = status != 0
            nt = (case["k"] < case["n"] and failing) or expected_executed(case["mode"], case["k"], case["n"]) == case["n"]
            if msg == "inconclusive":
                stats.inconclusive[key] += 1
                continue
            stats.case(case, nt, ("mode:" + case["mode"], "backend:" + case["backend"], "autoprove:%s" % case["autoprove"],
                                  "statements:" + case.get("flavour", "mul")), sample_cap=2)
            if msg:
                if key in known:
                    stats.excluded[key] += 1
                else:
                    k2 = key + ":" + case["backend"]
                    if k2 not in found:
                        found[k2] = {"case": case, "msg": msg, "key": key}
    finally:
        shutil.rmtree(tmp, ignore_errors=True)
    stats.violations = list(found.values())
    return stats


def replay(case):
    tmp = tempfile.mkdtemp(prefix="verif-c18-")
    try:
        msg, key = run_case(case, tmp)
        return None if msg in (None, "inconclusive") else msg
    finally:
        shutil.rmtree(tmp, ignore_errors=True)


def run(ctx):
    from harness.checks.c05 import replay_known
    ctx.rule = RULE
    ctx.assumptions = ["exit statuses of plain CPython for each termination mode (model table in harness/checks/c18.py)",
                       "flatbuffers stand-in and failing qaptools stubs; independent decoders for artefact content",
                       "os._exit and signals from outside are not termination modes of the property"]
    cases = []
    if ctx.tier == "quick":
        grid = [(3, [0, 1, 3])]
    else:
        grid = [(n, list(range(n + 1))) for n in range(1, 7)]
    # completeness for large traces (size-dependent writers): normal end, autoprove on
    for n in ([1001] if ctx.tier == "quick" else [1001, 2501]):
        for backend in BACKENDS:
            cases.append({"mode": "end", "k": n, "n": n, "backend": backend, "autoprove": True})
    for n, ks in grid:
        for mode, k, backend, ap in itertools.product(MODES, ks, BACKENDS, [True, False]):
            if MODES[mode][0] is None and k != n:
                continue
            cases.append({"mode": mode, "k": k, "n": n, "backend": backend, "autoprove": ap})
            # the same termination with other kinds of statements (assertions, comparisons, divisions, bit decompositions)
            if ctx.tier != "quick" or k in (0, n):
                cases.append({"mode": mode, "k": k, "n": n + 5 if ctx.tier == "quick" else n + 2, "backend": backend, "autoprove": ap, "flavour": "mixed"})
            if ap and k in (0, n):
                cases.append({"mode": mode, "k": k, "n": n, "backend": backend, "autoprove": "off-then-on"})
            if k in (0, n):
                cases.append({"mode": mode, "k": k, "n": n, "backend": backend, "autoprove": ap, "operation": ["prove", "keygen", "verify"][(k + len(mode)) % 3]})
            if k in (0, n) and ap:
                cases.append({"mode": mode, "k": k, "n": n, "backend": backend, "autoprove": ap, "thread_import": True})
            if k in (0, n) and backend == "qaptools":
                cases.append({"mode": mode, "k": k, "n": n, "backend": backend, "autoprove": ap, "flavour": "calls"})
            if k in (0, n) and ap and MODES[mode][1] != "sigint":
                # under -i CPython does not act on SystemExit: it hands it to sys.excepthook like any exception and opens the
                # prompt, so exit requests are outside the domain there; normal ends and real exceptions are in it
                inspectable = "exit" not in (MODES[mode][0] or "").lower() and len(MODES[mode]) <= 3
                li = (len(mode) + k + len(backend)) % 6
                if li == 0 and not inspectable:
                    li = 1
                cases.append({"mode": mode, "k": k, "n": n, "backend": backend, "autoprove": ap, "launch": ["-i", "-O", "-c", "-m", "stdin", "runpy"][li]})
                if li != 0 and inspectable:
                    cases.append({"mode": mode, "k": k, "n": n, "backend": backend, "autoprove": ap, "launch": "-i"})
            if k == n and ap and backend != "qaptools":      # qaptools opens its (relative) work files when it is initialised
                cases.append({"mode": mode, "k": k, "n": n, "backend": backend, "autoprove": ap, "chdir": True})
    jobs = [dict(cases=cases[i::16]) for i in range(16)]
    ctx.stats = core.run_shards("harness.checks.c18", "shard", jobs)
    ctx.exhaustive = True
    ctx.stats.extra["space"] = {"modes": len(MODES), "backends": BACKENDS, "grid": [[n, ks] for n, ks in grid], "cases": len(cases)}
    replay_known(ctx, replay)
