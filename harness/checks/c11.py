"""C11: zkinterface files encode the traced circuit; the verifier file has no witness."""
import copy
import os
import shutil
import tempfile

from hypothesis import given, strategies as st

from harness import core, backends, ir, r1cs
from harness.decoders import fbreader
from harness.checks.c10 import quiet, lcmap

RULE = ("for each of the three field configurations (pysnark.zkinterface.backend / bn128, backendbellman / bls12-381, "
        "backendbulletproofs / curve25519, each through its own module): generated IR programs replayed at the interface "
        "level and directly generated backend-level traces (zero coefficients, empty combinations, scalars and values "
        "outside [0,p), > 256 bits), then prove() in a scratch directory. Oracle (own FlatBuffers reader following "
        "zkinterface.fbs): computation.zkif is exactly the size-prefixed messages CircuitHeader, Witness, "
        "ConstraintSystem and circuit.zkif exactly CircuitHeader, ConstraintSystem (no Witness); the header lists "
        "instance ids 1..n with the public values, free_variable_id = n+m+1 and field_maximum = p-1 little-endian; the "
        "witness assigns exactly ids n+1..n+m; constraints decode to the recorder's under that numbering with canonical "
        "coefficients (< p); the decoded assignment satisfies a decoded constraint iff the trace does; the two files "
        "agree on header and constraints; with the private values re-drawn circuit.zkif is byte-identical. Plus deterministic large traces (1 to 1025 "
        "[thorough: 4097] constraints) per configuration. Non-trivial = "
        ">= 1 public, >= 1 private, >= 1 constraint and a value or scalar outside [0,p); distinct by (config, trace) digest.")
RULE += " Extensions (seeded rounds 10-15): 32769 constraints (thorough: 40001, 65537), same-shaped stale files, a failed prove() in the history. Coefficient sweep: every coefficient k, -k, p-k, p+k for k = 1..10001 and around the powers of two and ten above, on a wire and on the constant."

CONFIGS = ["zkinterface", "zkifbellman", "zkifbulletproofs"]


LIGHT_OPS = [n for n in ir.OPS if n not in ("poseidon", "poseidon1", "permute", "ggh")]


class StaleOutput(Exception):
    pass


def check_file(msgs, expect_kinds, ref, p, label):
    kinds = [k for k, _ in msgs]
    # the format allows a constraint system to be spread over several ConstraintSystem messages: they are concatenated
    ncs = len([k for k in kinds if k == "ConstraintSystem"])
    if ncs >= 1 and kinds[:len(expect_kinds) - 1] == expect_kinds[:-1] and kinds[len(expect_kinds) - 1:] == ["ConstraintSystem"] * ncs:
        merged = {"constraints": [c for k, b in msgs if k == "ConstraintSystem" for c in b["constraints"]]}
        msgs = [(k, b) for k, b in msgs if k != "ConstraintSystem"] + [("ConstraintSystem", merged)]
        kinds = [k for k, _ in msgs]
    if kinds != expect_kinds:
        return "%s contains messages %r, expected %r" % (label, kinds, expect_kinds)
    num, pubs, privs = backends.file_numbering(ref["kinds"])
    n, m = len(pubs), len(privs)
    elen = (p.bit_length() + 7) // 8
    for kind, body in msgs:
        if kind == "CircuitHeader":
            iv = body["instance_variables"]
            if iv is None:
                return "%s: header without instance_variables" % label
            if iv["ids"] != list(range(1, n + 1)):
                return "%s: header instance ids %r, expected 1..%d" % (label, iv["ids"], n)
            try:
                w, vals = fbreader.split_values(iv["values"], n)
            except fbreader.FormatError as e:
                return "%s: header values: %s" % (label, e)
            want = [ref["vals"][k] % p for k in pubs]
            if vals != want:
                return "%s: header instance values %r, trace has %r" % (label, vals, want)
            if body["free_variable_id"] != n + m + 1:
                return "%s: free_variable_id %d, expected %d" % (label, body["free_variable_id"], n + m + 1)
            if int.from_bytes(body["field_maximum"], "little") != p - 1 or len(body["field_maximum"]) != elen:
                return "%s: field_maximum is %d (%d bytes), expected p-1 in %d bytes" % (
                    label, int.from_bytes(body["field_maximum"], "little"), len(body["field_maximum"]), elen)
        elif kind == "Witness":
            av = body["assigned_variables"]
            if av is None or av["ids"] != list(range(n + 1, n + m + 1)):
                return "%s: witness assigns ids %r, expected %d..%d" % (label, None if av is None else av["ids"], n + 1, n + m)
            try:
                w, vals = fbreader.split_values(av["values"], m)
            except fbreader.FormatError as e:
                return "%s: witness values: %s" % (label, e)
            want = [ref["vals"][k] % p for k in privs]
            if vals != want:
                return "%s: witness values differ from the trace (first difference at position %d)" % (
                    label, [i for i in range(m) if vals[i] != want[i]][0])
        elif kind == "ConstraintSystem":
            cons = body["constraints"]
            if len(cons) != len(ref["cons"]):
                return "%s: %d constraints, the trace has %d" % (label, len(cons), len(ref["cons"]))
            full = {0: 1}
            for k, i in num.items():
                full[i] = ref["vals"][k] % p
            for i, (fc, rc) in enumerate(zip(cons, ref["cons"])):
                sides = []
                for side, (fv, rd) in enumerate(zip(fc, rc)):
                    if fv is None:
                        return "%s: constraint %d lacks combination %s" % (label, i, "ABC"[side])
                    try:
                        w, coefs = fbreader.split_values(fv["values"], len(fv["ids"]))
                    except fbreader.FormatError as e:
                        return "%s: constraint %d: %s" % (label, i, e)
                    if any(c >= p for c in coefs):
                        return "%s: constraint %d has a non-canonical coefficient (>= p)" % (label, i)
                    if any(v > n + m for v in fv["ids"]):
                        return "%s: constraint %d refers to variable id beyond free_variable_id" % (label, i)
                    got = lcmap(zip(fv["ids"], coefs), p)
                    exp = {}
                    for v, coef in rd.items():
                        exp[num[v]] = (exp.get(num[v], 0) + coef) % p
                    exp = {k: v for k, v in exp.items() if v}
                    if got != exp:
                        return "%s: constraint %d, combination %s decodes to %r, trace has %r" % (label, i, "ABC"[side], got, exp)
                    sides.append(sum(c * full[v] for v, c in zip(fv["ids"], coefs)) % p)
                sat = (sides[0] * sides[1] - sides[2]) % p == 0
                if sat != (not r1cs.evaluate([rc], ref["vals"], p)):
                    return "%s: decoded constraint %d is %s by the decoded assignment, unlike the traced one" % (label, i, "satisfied" if sat else "violated")
    return None


def judge(trace, name, mod, tmp, alt_privs=None, split=None):
    if split:
        # history with two proving steps: the files written by the first must describe the trace so far
        msg = judge(trace[:split], name, mod, tmp)
        if msg:
            return "after the first prove() (of two): " + msg
        p0 = backends.FIELDS[name]
        backends.reset_state(name, mod)
        vars_ = backends.apply_trace(trace[:split], mod)
        if split % 2:
            backends.failed_prove(mod, tmp, ("computation.zkif", "circuit.zkif"))     # the first proving step fails half-way and is caught
        else:
            mod.prove()
        backends.apply_trace(trace[split:], mod, vars_)
        msg = backends.prove_over_stale(mod, tmp, ("computation.zkif", "circuit.zkif"))
        if msg:
            return "after the second prove(): " + msg
        ref = backends.reference(trace, p0)
        try:
            mcomp = fbreader.read_file(open(os.path.join(tmp, "computation.zkif"), "rb").read())
            mcirc = fbreader.read_file(open(os.path.join(tmp, "circuit.zkif"), "rb").read())
        except fbreader.FormatError as e:
            return "after the second prove(): malformed file: %s" % e
        msg = check_file(mcomp, ["CircuitHeader", "Witness", "ConstraintSystem"], ref, p0, "computation.zkif") or \
            check_file(mcirc, ["CircuitHeader", "ConstraintSystem"], ref, p0, "circuit.zkif")
        return ("after the second prove(): " + msg) if msg else None
    p = backends.FIELDS[name]
    ref = backends.reference(trace, p)

    def produce(tr):
        backends.reset_state(name, mod)
        backends.apply_trace(tr, mod)
        msg = backends.prove_over_stale(mod, tmp, ("computation.zkif", "circuit.zkif"))
        if msg:
            raise StaleOutput(msg)
        return (open(os.path.join(tmp, "computation.zkif"), "rb").read(), open(os.path.join(tmp, "circuit.zkif"), "rb").read())
    if mod.get_modulus() != p:
        return "%s works in the field of order %d, expected %d" % (name, mod.get_modulus(), p)
    try:
        comp, circ = produce(trace)
    except StaleOutput as e:
        return str(e)
    try:
        mcomp = fbreader.read_file(comp)
        mcirc = fbreader.read_file(circ)
    except fbreader.FormatError as e:
        return "malformed file: %s" % e
    msg = check_file(mcomp, ["CircuitHeader", "Witness", "ConstraintSystem"], ref, p, "computation.zkif")
    if msg:
        return msg
    msg = check_file(mcirc, ["CircuitHeader", "ConstraintSystem"], ref, p, "circuit.zkif")
    if msg:
        return msg
    if alt_privs is not None:
        t2 = copy.deepcopy(trace)
        it = iter(alt_privs)
        for c in t2:
            if c[0] == "priv":
                c[1] = next(it)
        comp2, circ2 = produce(t2)
        if circ2 != circ:
            return "circuit.zkif differs between two runs that differ only in private values"
        if comp2 == comp and any(a[1] % p != b[1] % p for a, b in zip(trace, t2) if a[0] == "priv"):
            return "computation.zkif is identical although the private values differ"
    return None


class Env:
    def __init__(self, name):
        self.tmp = tempfile.mkdtemp(prefix="verif-c11-")
        self.old = os.getcwd()
        os.chdir(self.tmp)
        self.name = name
        self.mod = backends.load(name)

    def close(self):
        os.chdir(self.old)
        shutil.rmtree(self.tmp, ignore_errors=True)


def nontrivial(trace, p):
    kinds = [c[0] for c in trace]

    def scal(t, acc):
        if t[0] == "mul":
            acc.append(t[2])
        for x in t[1:]:
            if isinstance(x, list):
                scal(x, acc)
        return acc
    out = any(c[0] != "con" and not 0 <= c[1] < p for c in trace) or any(
        not 0 <= s < p for c in trace if c[0] == "con" for t in c[1:] for s in scal(t, []))
    return "pub" in kinds and "priv" in kinds and "con" in kinds and out


def shard(name, seed, n_examples, programs):
    stats = core.Stats()
    e = Env(name)
    p = backends.FIELDS[name]
    fieldname = {"zkinterface": "bn128", "zkifbellman": "bls12-381", "zkifbulletproofs": "curve25519"}[name]
    try:
        @given(st.data())
        def test(data):
            draw = data.draw
            if programs:
                cfg = ir.gen_cfg(draw, st, small_ok=False)
                cfg["p"] = fieldname
                cfg["b"] = min(cfg["b"], 32)     # file encoding is judged here: hash gadgets and 64-bit comparisons only add bulk
                m, labels = ir.generate(draw, st, cfg, draw(st.integers(1, 6)), ops=LIGHT_OPS)
                trace = backends.trace_from_recorder(m.ns.rec.snapshot())
                lab = ("source:program", "config:" + name)
            else:
                trace = draw(backends.trace_strategy(st, p))
                lab = ("source:direct", "config:" + name)
            alt = None
            if draw(st.booleans()):
                alt = [draw(st.integers(-3, p + 3)) for c in trace if c[0] == "priv"]
            split = draw(st.integers(1, len(trace))) if len(trace) > 1 and alt is None and draw(st.integers(0, 2)) == 0 else None
            case = {"config": name, "trace": trace, "alt_privs": alt, "split": split}
            msg = quiet(judge, trace, name, e.mod, e.tmp, alt, split)
            nt = nontrivial(trace, p)
            stats.case(case if nt else None, nt, lab + (("metamorphic",) if alt else ()) + (("two-proves",) if split else ()))
            if msg:
                raise core.Violation(case, msg, "file")
        v = core.drive(test, seed, n_examples)
        if v is not None:
            stats.violations.append({"case": v.case, "msg": v.msg, "key": v.key})
    finally:
        e.close()
    return stats


def large_shard(name, sizes):
    stats = core.Stats()
    e = Env(name)
    p = backends.FIELDS[name]
    try:
        for n in sizes:
            trace = backends.sized_trace(n, p)
            case = {"config": name, "large": n}
            msg = quiet(judge, trace, name, e.mod, e.tmp, None, None)
            stats.case(case, True, ("large-trace", "config:" + name), sample_cap=2)
            if msg:
                stats.violations.append({"case": case, "msg": "%s, trace %s: %s" % (name, "with %d constraints" % n if isinstance(n, int) else "with %s public values" % n[3:] if n.startswith("pub") else "sweeping coefficients (%s)" % n, msg), "key": "large"})
    finally:
        e.close()
    return stats


def replay(case):
    if "large" in case:
        e = Env(case["config"])
        try:
            return quiet(judge, backends.sized_trace(case["large"], backends.FIELDS[case["config"]]), case["config"], e.mod, e.tmp, None, None)
        finally:
            e.close()
    e = Env(case["config"])
    try:
        return quiet(judge, case["trace"], case["config"], e.mod, e.tmp, case.get("alt_privs"), case.get("split"))
    finally:
        e.close()


def run(ctx):
    ctx.rule = RULE
    ctx.assumptions = ["flatbuffers stand-in (harness/shims/fb) builds the messages: pysnark's use of the builder is judged, not the builder",
                       "own FlatBuffers reader (harness/decoders/fbreader.py) replaces the zkinterface consumers, which are not available offline",
                       "recorder as reference trace"]
    n = 120 if ctx.tier == "quick" else 2500
    jobs = []
    for i, c in enumerate(CONFIGS):
        for k in range(5):
            jobs.append(dict(name=c, seed=ctx.seed * 1000 + 31 * i + k, n_examples=n, programs=(k % 2 == 0)))
    ctx.stats = core.run_shards("harness.checks.c11", "shard", jobs)
    sizes = [1, 255, 256, 1000, 1001, 1025, "pub255", "pub256", "pub257", "coef10001"] if ctx.tier == "quick" else [1, 85, 255, 256, 257, 999, 1000, 1001, 1024, 1025, 2047, 2501, 4097, "pub255", "pub256", "pub257", "pub1000", "pub65537", "coef10001"]
    lj = [dict(name=c, sizes=sizes[i::4]) for c in CONFIGS for i in range(4)]
    # more than 2^15 / 2^16 constraints in one run (a writer may split the constraint system over several messages)
    lj += [dict(name=CONFIGS[0], sizes=[32769])] if ctx.tier == "quick" else [dict(name=c, sizes=[n_]) for c in CONFIGS for n_ in (32769, 40001, 65537)]
    ctx.stats.merge_json(core.run_shards("harness.checks.c11", "large_shard", lj).to_json())
    ctx.stats.merge_json(core.run_shards_optimised("harness.checks.c11", "large_shard", [dict(name=c, sizes=[1, 85]) for c in CONFIGS]).to_json())
    ctx.stats.extra["configs"] = CONFIGS
