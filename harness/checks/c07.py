"""C07: a false guard makes code inert; a true guard is transparent."""
import itertools

from hypothesis import given, strategies as st

from harness import core, env, ir, opgrid, r1cs
from harness.checks import c03

RULE = ("(a) cell sweep: every operation/assertion x operand-type combination x plain-constant operands x a pool of "
        "secret operand values including values invalid for the operation, run unguarded, under guarded(1), "
        "guarded(0) and the nestings 1/0, 0/1, 0/0, 1/1. Guard with a false level: no exception for any secret operand "
        "values whenever some operand values make the unguarded call succeed (so the exception can only be caused by the "
        "values met), all emitted constraints satisfied by the recorded witness, reported values equal to wire "
        "expressions. All-true guards vs unguarded: same result values or same exception type. (b) lazy selection "
        "if_then_else(c, lambda: body, other) / (c, other, lambda: body) / both lazy, for both values of c: value equals "
        "the taken branch, the untaken branch never raises, and in small fields the selected value is uniquely "
        "determined (unit propagation, else complete search) with the inputs pinned. (c) enforcement: for assertion "
        "kinds (as C03) under guarded(1) the satisfiable operand set equals the unguarded one; under guarded(0) every "
        "operand value is satisfiable; and when the same assertion is repeated at top level on the same operand objects "
        "after having been made under a guard (either value) the satisfiable set is again exactly the unguarded one. (d) generated multi-statement bodies under nested guards. Non-trivial = the body "
        "raises when unguarded on these operand values (a, b, d) / every instance (c); distinct by case digest.")
RULE += " Extensions (seeded rounds 10-15): regions whose conditions are derived from the conditions around them (c & e inside the region of c, ...), unpacking of raw wires; live values used inside a dead region and again after it (the live program behaves as with the region deleted), dead chains that combine garbage with live values."


HUGE = ["pow", 3, 16384]       # 7817 decimal digits, decoded by ir.Machine._make_input
FALSE_MODES = ["guard0", "guard10", "guard01", "guard00"]
TRUE_MODES = ["guard1", "guard11"]
SKIP_OPS = {"val", "snark_chain", "ggh", "permute", "poseidon", "poseidon1", "pos", "fmt"}      # snark_chain reads values back with val()


def outcome(m, nargs):
    if m.raised is not None:
        return ("raise", type(m.raised[1]).__name__, str(m.raised[1]))
    vals, ts = opgrid.results(m, nargs)
    return ("ok", [v if isinstance(v, (int, float)) else [ir.pyval(x, "B") if hasattr(x, "lc") and not isinstance(x, m.ns.rt.LinComb) else getattr(x, "value", x) for x in v] if isinstance(v, list) else str(v) for v in vals], ts)


def consistent(m):
    rec = m.ns.rec
    bad = r1cs.evaluate(rec.snapshot())
    if bad:
        return "constraint #%d is violated by the recorded witness" % bad[0]
    for i, x in enumerate(m.vals):
        for path, leaf in ir.secret_leaves(m.ns, x, "v%d" % i):
            if (leaf.value - r1cs.lc_value(leaf.lc.d, rec.vals, rec.P)) % rec.P:
                return "%s reports %d but its wire expression evaluates to %d" % (
                    path, leaf.value, ir.centered(r1cs.lc_value(leaf.lc.d, rec.vals, rec.P), rec.P))
    return None


def sweep_shard(cells, b, p):
    stats = core.Stats()
    known = core.load_known("C07")
    found = {}
    lim = 1 << b
    ipool = [-lim - 1, -1, 0, 1, 2, 3, lim - 1, lim]

    def report(key, prog, msg):
        if key in known:
            stats.excluded[key] += 1
        elif key not in found:
            found[key] = {"case": prog, "msg": msg, "key": key}

    for name, ts in cells:
        op = ir.OPS[name]
        sec_pos = [i for i, t in enumerate(ts) if t in "IBF"]
        const_pos = [i for i, t in enumerate(ts) if t not in "IBF"]
        cpools = []
        for pos in const_pos:
            t = ts[pos]
            if pos in op.params:
                cpools.append([0, 1, b, b + 1])
            elif t == "b":
                cpools.append([False, True])
            elif t == "f":
                cpools.append([["f", 3, 2]])
            else:
                cpools.append([-1, 0, 1, 2, 3, lim])
        spools = [[0, 1, 2] if ts[pos] == "B" else ipool for pos in sec_pos]     # 2: declared boolean holding garbage
        for cvals in itertools.product(*cpools):
            runs = []
            for svals in itertools.product(*spools):
                vals = [None] * len(ts)
                for pos, v in zip(const_pos, cvals):
                    vals[pos] = v
                for pos, v in zip(sec_pos, svals):
                    vals[pos] = v
                args = [(t, "priv", v) for t, v in zip(ts, vals)]
                cfg = {"p": p, "b": b, "r": 2, "ignore": False}
                res = {}
                for mode in ["normal"] + TRUE_MODES + FALSE_MODES + ["ignore", "ignore+guard1", "ignore+guard11"]:
                    prog = opgrid.single(cfg, name, args, mode)
                    m = ir.run_program(prog)
                    ng = len(mode.split("guard")[1]) if "guard" in mode else 0
                    res[mode] = (prog, consistent(m) if (m.raised is None and mode in FALSE_MODES) else None,
                                 outcome(m, prog["first_result"]))
                runs.append((vals, res))
            supported = any(r["normal"][2][0] == "ok" for _, r in runs)
            for vals, res in runs:
                normal = res["normal"][2]
                invalid_here = normal[0] == "raise"
                for mode in TRUE_MODES:
                    prog, m, out = res[mode]
                    stats.case([name, ts, [str(v) for v in vals], mode], invalid_here, ("mode:" + mode, "op:" + name), sample_cap=1)
                    if out[0] != normal[0] or (out[0] == "ok" and out[1] != normal[1]) or (out[0] == "raise" and out[1] != normal[1]):
                        report("%s.%s.true-guard-not-transparent" % (name, ts), prog,
                               "%s%r on %s: unguarded gives %r, under %s gives %r" % (name, tuple(vals), ts, normal[:2], mode, out[:2]))
                # the user's own ignore_errors(True) must stay in force under a true guard
                ign = res["ignore"][2]
                for mode in ("ignore+guard1", "ignore+guard11"):
                    prog, m, out = res[mode]
                    stats.case([name, ts, [str(v) for v in vals], mode], invalid_here, ("mode:" + mode,), sample_cap=1)
                    if out[0] != ign[0] or (out[0] == "ok" and out[1] != ign[1]) or (out[0] == "raise" and out[1] != ign[1]):
                        report("%s.%s.true-guard-not-transparent-under-ignore_errors" % (name, ts), prog,
                               "%s%r on %s with ignore_errors(True): unguarded gives %r, under a true guard (%s) gives %r" % (
                                   name, tuple(vals), ts, ign[:2], mode, out[:2]))
                for mode in FALSE_MODES:
                    prog, m, out = res[mode]
                    stats.case([name, ts, [str(v) for v in vals], mode], invalid_here, ("mode:" + mode, "op:" + name), sample_cap=1)
                    if out[0] == "raise":
                        if supported:
                            report("%s.%s.raises-under-false-guard:%s" % (name, ts, out[1]), prog,
                                   "%s%r on %s raised %s (%s) under %s although the guard is false (the unguarded call works for other operand values)" % (
                                       name, tuple(vals), ts, out[1], out[2], mode))
                        continue
                    msg = m
                    if msg:
                        report("%s.%s.false-guard-inconsistent" % (name, ts), prog, "%s%r on %s under %s: %s" % (name, tuple(vals), ts, mode, msg))
        # the same cell with an operand of several thousand digits (trace-time values are unreduced Python integers, an
        # inert branch may square them at will): still no exception under a false guard. Nothing here prints the value.
        if any(ts[pos] in "IF" for pos in sec_pos):
            for cvals in itertools.product(*cpools):
                for hpos in [pos for pos in sec_pos if ts[pos] in "IF"]:
                    vals = [None] * len(ts)
                    for pos, v in zip(const_pos, cvals):
                        vals[pos] = v
                    for pos in sec_pos:
                        vals[pos] = HUGE if pos == hpos else 1
                    args = [(t_, "priv", v) for t_, v in zip(ts, vals)]
                    cfg = {"p": p, "b": b, "r": 2, "ignore": False}
                    small = [(t_, "priv", 1 if v is HUGE else v) for t_, v in zip(ts, vals)]
                    if ir.run_program(opgrid.single(cfg, name, small, "normal")).raised is not None:
                        continue        # the call does not even work on small operands with these constants
                    for mode in ("guard0", "guard10"):
                        prog = opgrid.single(cfg, name, args, mode)
                        m = ir.run_program(prog)
                        shown = ["3**16384" if v is HUGE else str(v) for v in vals]
                        stats.case([name, ts, shown, mode], True, ("mode:" + mode, "operand:thousands-of-digits"), sample_cap=1)
                        if m.raised is not None:
                            report("%s.%s.raises-under-false-guard:%s" % (name, ts, type(m.raised[1]).__name__), prog,
                                   "%s(%s) on %s raised %s (%s) under %s although the guard is false" % (
                                       name, ", ".join(shown), ts, type(m.raised[1]).__name__, str(m.raised[1])[:120], mode))
    stats.violations = list(found.values())
    return stats


# ---- lazy selection

def lazy_case(case):
    """returns (msg or None, nontrivial, status)"""
    name, ts, vals, form, c, other, osec, p, b = (case["op"], case["ts"], case["vals"], case["form"], case["c"],
                                                   case["other"], case["osec"], case["p"], case["b"])
    args = [(t, "priv", v) for t, v in zip(ts, vals)]
    # eager, unguarded evaluation of the body
    m0 = ir.run_program(opgrid.single({"p": p, "b": b, "r": 1, "ignore": False}, name, args))
    eager = outcome(m0, len(args))
    if eager[0] == "ok" and (len(eager[1]) != 1 or eager[2][0] not in "IBF"):
        return None, False, "skip"
    ns = env.reset(ir.resolve_p(p), b, 1)
    rec = ns.rec
    rt = ns.rt
    mk = ir.Machine.__new__(ir.Machine)
    mk.ns, mk.cfg = ns, {"r": 1}
    apiargs = []
    for t, k, v in args:
        if t in "IBF":
            apiargs.append(ir.Machine._make_input(mk, k, t, v))
        else:
            apiargs.append(v if not isinstance(v, list) else float(v[1]) / v[2])
    oth = rt.PrivVal(other) if osec else other
    cond = ns.bo.PrivValBool(c)
    inputs = list(range(1, len(rec.vals)))
    body = lambda: ir.OPS[name].fn(ns, *apiargs)
    taken = (c == 1) if form in ("true", "both") else (c == 0)
    try:
        if form == "true":
            res = ns.br.if_then_else(cond, body, oth)
        elif form == "false":
            res = ns.br.if_then_else(cond, oth, body)
        else:
            res = ns.br.if_then_else(cond, body, lambda: oth)
    except Exception as e:
        if taken and eager[0] == "raise" and type(e).__name__ == eager[1]:
            return None, True, "raised-as-unguarded"
        if eager[0] == "raise" and form == "both" and c == 1 and type(e).__name__ == eager[1]:
            return None, True, "raised-as-unguarded"
        if not case.get("supported", True):
            return None, False, "unsupported-body"
        return ("if_then_else(%d, %s) with body %s%r raised %s: %s (eager body: %r)" % (
            c, form, name, tuple(vals), type(e).__name__, e, eager[:2])), True, "raise"
    if taken and eager[0] == "raise":
        return ("body %s%r raises %s unguarded but the taken lazy branch returned %r" % (name, tuple(vals), eager[1], res)), True, "x"
    t = ir.classify(ns, res)
    if t not in "IBF":
        return None, False, "skip"
    got = ir.pyval(res, t)
    if taken:
        want = eager[1][0]
        if eager[2][0] != "F" and t == "F":
            want = want * 2     # resolution 1: other side converted to fixed point
    else:
        want = other * (2 if t == "F" else 1)
    if form == "both" and not taken:
        want = other * (2 if t == "F" else 1)
    if (got - want) % rec.P:
        return "if_then_else(%d, %s) with body %s%r and other=%r returned %r, expected %r" % (c, form, name, tuple(vals), other, got, want), True, "value"
    snap = rec.snapshot()
    bad = r1cs.evaluate(snap)
    if bad:
        return "constraint #%d violated by the recorded witness (lazy %s branch, c=%d, body %s%r)" % (bad[0], form, c, name, tuple(vals)), True, "sat"
    leaf = ir.inner(res, t)
    if (leaf.value - r1cs.lc_value(leaf.lc.d, rec.vals, rec.P)) % rec.P:
        return "selected value reports %d but its wire says otherwise" % leaf.value, True, "c04"
    status = "no-search"
    if rec.P < 5000 and not taken:
        fixed = {0: 1}
        for v in inputs:
            fixed[v] = rec.vals[v] % rec.P
        f = r1cs.forced(snap["cons"], rec.P, fixed)
        if f is None:
            return "unit propagation finds the circuit unsatisfiable although the honest witness satisfies it", True, "x"
        if all(v in f for v in leaf.lc.d):
            val = sum(cf * f[v] for v, cf in leaf.lc.d.items()) % rec.P
            status = "forced"
            if val != want % rec.P:
                return "selected value forced to %d, expected %d" % (val, want), True, "x"
        else:
            free = [v for v in range(1, len(rec.vals)) if v not in fixed]
            # the untaken body's variables are unconstrained by design: sample them instead of
            # enumerating F_p^k (incomplete adversary, reported as "sampled")
            hv = rec.vals
            s = r1cs.Search(snap["cons"], rec.P, fixed, free, budget=1500, small_limit=0,
                            candidates=lambda v: [0, 1, hv[v], hv[v] + 1, rec.P - 1, 7])
            status = "sampled"
            try:
                for asg, dc in s.solutions():
                    if any(v in dc and cf % rec.P for v, cf in leaf.lc.d.items()):
                        return "selected value depends on an unconstrained variable (c=%d, %s lazy, body %s%r)" % (c, form, name, tuple(vals)), True, "x"
                    val = sum(cf * asg.get(v, 0) for v, cf in leaf.lc.d.items()) % rec.P
                    if val != want % rec.P:
                        return "constraints admit selected value %d although the other branch is worth %d (c=%d, %s lazy, body %s%r)" % (
                            val, want, c, form, name, tuple(vals)), True, "x"
            except r1cs.Budget:
                status = "budget"
    return None, eager[0] == "raise" and not taken, status


def lazy_shard(cells, b, p, small=False):
    stats = core.Stats()
    known = core.load_known("C07")
    found = {}
    lim = 1 << b
    ipool = [-lim - 1, 0, 1, lim] if small else [-lim - 1, -1, 0, 1, 2, lim - 1, lim]
    for name, ts in cells:
        pools = []
        op = ir.OPS[name]
        for pos, t in enumerate(ts):
            if pos in op.params:
                pools.append([0, 1, b])
            elif t in "Bb":
                pools.append([0, 1])
            elif t == "f":
                pools.append([["f", 3, 2]])
            elif t == "i":
                pools.append([-1, 0, 2, lim])
            else:
                pools.append(ipool)
        # a body is "supported" for given plain constants if some secret operand values make it succeed
        # unguarded: only then can an exception in the untaken branch be caused by the values met
        sup = {}
        for vals in itertools.product(*pools):
            ck = tuple(str(v) for v, t in zip(vals, ts) if t not in "IBF")
            if sup.get(ck):
                continue
            m0 = ir.run_program(opgrid.single({"p": p, "b": b, "r": 1, "ignore": False}, name,
                                              [(t, "priv", v) for t, v in zip(ts, vals)]))
            sup[ck] = sup.get(ck, False) or m0.raised is None
        for vals in itertools.product(*pools):
            ck = tuple(str(v) for v, t in zip(vals, ts) if t not in "IBF")
            for form in ("true", "false", "both"):
                for c in (0, 1):
                    case = {"part": "lazy", "op": name, "ts": ts, "vals": list(vals), "form": form, "c": c,
                            "other": 5, "osec": (c + len(vals)) % 2 == 0, "p": p, "b": b, "supported": sup[ck]}
                    msg, nt, status = lazy_case(case)
                    if status == "budget":
                        stats.inconclusive["budget"] += 1
                    stats.case(case if nt else None, nt, ("lazy:" + form, "lazy-status:" + status), sample_cap=2)
                    if msg:
                        key = "%s.%s.lazy-%s" % (name, ts, form)
                        if key in known:
                            stats.excluded[key] += 1
                        elif key not in found:
                            found[key] = {"case": case, "msg": msg, "key": key}
    stats.violations = list(found.values())
    return stats


# ---- enforcement under guards (reuses the C03 kinds)

def enforce_shard(items, p, b):
    stats = core.Stats()
    known = core.load_known("C07")
    found = {}
    ks = {k.name: k for k in c03.kinds(b)}
    for name, prm in items:
        kind = ks[name]
        for gval, then_top, shape in ((1, False, None), (0, False, None), (0, True, None), (1, True, None),
                                      (1, False, "pub-inside"), (0, False, "pub-inside"), (1, False, "pub-outside")):
            case = {"part": "enforce", "kind": name, "param": prm, "p": p, "b": b, "g": gval, "then_top": then_top, "shape": shape}
            msg = enforce_case(kind, prm, p, b, gval, stats, then_top, shape)
            stats.case(case, True, ("enforce:g%d%s%s" % (gval, "+top" if then_top else "", "+" + shape if shape else ""),), sample_cap=2)
            if msg:
                key = "%s.enforce-g%d%s%s" % (name, gval, "+top" if then_top else "", "+" + shape if shape else "")
                if key in known:
                    stats.excluded[key] += 1
                elif key not in found:
                    found[key] = {"case": case, "msg": msg, "key": key}
    stats.violations = list(found.values())
    return stats


def enforce_case(kind, prm, p, b, gval, stats=None, then_top=False, shape=None):
    """shape: "pub-inside" = the assertion sits in a block with a PUBLIC condition (guarded(1), like _if(1) or a loop with an
    int bound) nested in the secret guard; "pub-outside" = the secret guard sits in such a block.
    then_top: the assertion is first made under guarded(gval) and then AGAIN, on the same operand objects,
    at top level: whatever happened under the guard, the top-level assertion must be enforced (S == A)"""
    lim = 1 << b
    if kind.nops == 1:
        window = [(v,) for v in range(-(p // 2), p // 2 + 1)]
    else:
        w = range(-lim - 1, lim + 2)
        window = list(itertools.product(w, w))

    def attempt(vals, guard):
        ns = env.reset(p, b, 1)
        rec = ns.rec
        try:
            g = ns.rt.PrivVal(guard) if guard is not None else None
            opvars, ops = [], []
            for v in vals:
                opvars.append(len(rec.vals))
                ops.append(ns.rt.PrivVal(v))
            if g is None:
                kind.call(ns, ops, prm)
            else:
                body = lambda: kind.call(ns, ops, prm)
                if shape == "pub-inside":
                    body = (lambda inner: lambda: ns.rt.guarded(1)(inner)())(body)
                region = lambda: ns.rt.guarded(g)(body)()
                if shape == "pub-outside":
                    region = (lambda inner: lambda: ns.rt.guarded(1)(inner)())(region)
                region()
                if then_top:
                    kind.call(ns, ops, prm)
        except Exception as e:
            return None, None, e
        return rec.snapshot(), opvars, None
    # unguarded accepted set
    A = set()
    for vals in window:
        tr, ov, e = attempt(vals, None)
        if tr is not None:
            A.add(vals)
    # guarded circuit captured from any operand values on which the guarded call returns
    trace = opvars = None
    for vals in window:
        tr, ov, e = attempt(vals, gval)
        if tr is not None:
            trace, opvars = tr, ov
            break
        elif gval == 0 and A and not then_top:
            return "%s[%s] raised %s: %s under a false guard%s for operand %r" % (kind.name, prm, type(e).__name__, e, " (" + shape + ")" if shape else "", vals)
    if trace is None:
        return None
    S = set()
    for vals in window:
        fixed_vals = list(vals)
        sat = c03.satisfiable(trace, [1] + opvars, [gval] + fixed_vals)
        if sat is None:
            if stats is not None:
                stats.inconclusive["budget"] += 1
            continue
        if sat:
            S.add(vals)
    if then_top:
        if S != A:
            d = sorted(S ^ A, key=lambda v: tuple(abs(x) for x in v))
            return "%s[%s] asserted under guarded(%d) and then again at top level on the same objects: satisfiable operand set differs from the unguarded accepted set at %r (%d values)" % (kind.name, prm, gval, d[0], len(d))
        return None
    if gval == 1 and S != A:
        d = sorted(S ^ A, key=lambda v: tuple(abs(x) for x in v))
        return "%s[%s] under guarded(1)%s: satisfiable operand set differs from the unguarded accepted set at %r (%d values)" % (
            kind.name, prm, " with a public-condition block " + shape.split("-")[1] if shape else "", d[0], len(d))
    if gval == 0 and len(S) != len(window):
        d = sorted(set(window) - S, key=lambda v: tuple(abs(x) for x in v))
        return "%s[%s] under guarded(0)%s: operand %r makes the circuit unsatisfiable although the guard is false" % (kind.name, prm, " (" + shape + ")" if shape else "", d[0])
    return None


# ---- generated bodies

def body_shard(seed, n_examples):
    stats = core.Stats()
    known = core.load_known("C07")

    @given(st.data())
    def test(data):
        draw = data.draw
        cfg = ir.gen_cfg(draw, st)
        m = ir.Machine(cfg)
        g = ir.Gen(draw, st, m, p_out_of_domain=0.5, allow_guard=True)
        # operands stay below the field order: an integer k*p (k != 0) is zero to the field and non-zero to Python, a
        # disagreement no operand of a real field (254 bits against a bitlength of 16) can reach
        g.wrap_values = False
        g.guard_forms = ["lc"]
        # prelude: a false guard variable, then a guarded region with a generated body
        out = m.exec_stmt(["in", "priv", "B", 0])
        gref = out[1][0]
        # live values of the surrounding program (small and negative ones among them), used by the region and again after it
        live = []
        for _ in range(draw(st.integers(0, 2))):
            live += m.exec_stmt(["in", "priv", "I", draw(st.one_of(st.integers(-9, 9), ir.int_values(st, cfg["b"])))])[1]
        g.recent = list(live)
        n = draw(st.integers(1, 5))
        raised_inside = []

        def body(mm):
            for _ in range(n):
                g.step()
                if mm.raised:
                    raised_inside.append(mm.raised)
                    raise ir._Abort()
        m.exec_stmt(["guard", "lc", gref, []], body_fn=body)
        prog = m.program()
        npre = 1 + len(live)
        labels = set(g.labels)
        msg = consistent(m) if m.raised is None else None
        if m.raised is None and msg is None and live:
            # the live program goes on with its values: what it computes from them (and whether it is refused) is what it
            # computes with the dead region deleted
            msg = live_tail(prog, npre, live)
            prog = dict(prog, tail=True)
            labels.add("live-tail")
        # the same body unguarded: does it raise because of values?
        flat = {"cfg": prog["cfg"], "stmts": prog["stmts"][:npre] + prog["stmts"][npre][3]}
        m2 = ir.run_program(flat)
        nt = m2.raised is not None and m.raised is None
        stats.case(prog if nt else None, nt, labels | {"unguarded:" + ("raises" if m2.raised else "ok")})
        if m.raised is not None:
            e = m.raised[1]
            stmt = m.raised[0]
            opname = stmt[1] if stmt[0] == "op" else stmt[0]
            key = "body.raises-under-false-guard:%s:%s" % (opname, type(e).__name__)
            # Is the exception caused by the values met (and not by the program: types, plain constants)?
            # Whitelist of value-caused failures; everything else is left to the rigorous sweep (a).
            txt = str(e)
            argts = [m.types[i] for i in stmt[2]] if stmt[0] == "op" else []
            plain_args = [m.vals[i] for i in stmt[2] if m.types[i] in "ibf"] if stmt[0] == "op" else []
            value_caused = False
            if isinstance(e, AssertionError):
                value_caused = True
            elif isinstance(e, ValueError) and ("is not a" in txt or "not properly divisible" in txt):
                value_caused = True
            elif isinstance(e, ValueError) and "Division by zero" in txt:
                value_caused = bool(argts) and argts[-1] in "IBF"
            elif isinstance(e, ValueError) and "can only take Boolean values" in txt:
                value_caused = all(v in (0, 1) for v in plain_args)
            elif isinstance(e, IndexError):
                value_caused = len(argts) > 1 and argts[1] == "I"
            elif isinstance(e, RuntimeError) and "incorrect guard value" in txt:
                value_caused = True
            elif isinstance(e, ZeroDivisionError):
                value_caused = not any(v == 0 for v in plain_args)
            if not value_caused:
                return
            if key in known:
                stats.excluded[key] += 1
                return
            raise core.Violation(prog, "under a false guard, statement %r raised %s: %s" % (stmt, type(e).__name__, e), key)
        if msg:
            raise core.Violation(prog, "false guard: " + msg, "body.false-guard-inconsistent")

    v = core.drive(test, seed, n_examples)
    return core.finish_shard(stats, v, None)


def live_tail(prog, npre, live):
    """prog = prelude (npre statements; `live` are the indices of its integer inputs), a false-guarded region, nothing else.
    Appends sign test, halving, square and bit decomposition of every live value and runs that once with the region and once
    with the region deleted: outcomes (values or exception type per statement) must agree."""
    outs = []
    for with_region in (True, False):
        stmts = list(prog["stmts"][:npre + (1 if with_region else 0)])
        m = ir.Machine(prog["cfg"])
        for s_ in stmts:
            m.exec_stmt(s_)
        if m.raised is not None:
            return None
        c0 = m.exec_stmt(["const", 0])[1][0]
        c2 = m.exec_stmt(["const", 2])[1][0]
        seq = []
        for y in live:
            for st_ in (["op", "lt", [y, c0]], ["op", "floordiv", [y, c2]], ["op", "mul", [y, y]], ["op", "abs", [y]], ["op", "val", [y]]):
                r = m.exec_stmt(st_)
                if r[0] == "ok":
                    seq.append((st_[1], y, "ok", [ir.pyval(m.vals[i], m.types[i]) if m.types[i] in "IBF" else m.vals[i] for i in r[1]], m.refval(y)))
                else:
                    seq.append((st_[1], y, "raise", type(r[1]).__name__, None))
                    m.raised = None
        bad = consistent(m)
        if bad:
            return ("after the dead region: " if with_region else "harness: ") + bad
        outs.append(seq)
    for a, c in zip(*outs):
        if a != c:
            return ("live code after a false-guarded region: %s on v%d gives %s %r (operand value %r) but %s %r (operand value %r) with the region deleted"
                    % (a[0], a[1], a[2], a[3], a[4], c[2], c[3], c[4]))
    return None


def dead_chain_shard(b, p):
    """dead regions that compute garbage from invalid operands (inexact division, division by zero, shift of a negative value,
    product of field-sized values) and combine it with a live value of the surrounding program in a second operation; the
    live program then goes on using that value (live_tail)."""
    stats = core.Stats()
    found = {}
    lim = 1 << b
    sources = [("truediv", 7, 3), ("truediv", 5, 0), ("floordiv", 5, 0), ("mod", -5, 0), ("rshift", -5, 1), ("mul", lim + 1, lim + 1),
               ("floordiv", lim + 3, 2), ("pow", 3, 5), ("truediv", -7, 2)]
    users = ["mul", "add", "sub", "truediv", "floordiv", "mod", "lt", "ge", "eq", "and", "or", "xor", "lshift", "rshift", "assert_eq", "assert_lt"]
    for (op1, x, c), op2, order, y, again in itertools.product(sources, users, (0, 1), (-4, 5, 0, -1, lim - 1), (False, True)):
        # (a zero divisor is a secret input: dividing by the plain constant 0 is refused whatever the guard, being the program's fault)
        body = [["in", "priv", "I", c] if c == 0 else ["const", c], ["op", op1, [2, 3]], ["op", op2, [4, 1] if order == 0 else [1, 4]]]
        if again:
            body.append(["op", "mul", [4, 4]])      # the garbage squared (field-sized times field-sized), then the same use again
            body.append(["op", op2, [5, 1] if order == 0 else [1, 5]])
        prog = {"cfg": {"p": p, "b": b, "r": 0, "ignore": False},
                "stmts": [["in", "priv", "B", 0], ["in", "priv", "I", y], ["in", "priv", "I", x], ["guard", "lc", 0, body]], "tail": True}
        msg = replay(prog)
        stats.case(prog, True, ("dead-chain", "source:" + op1, "user:" + op2), sample_cap=2)
        if msg:
            key = "deadchain.%s.%s" % (op1, op2)
            found.setdefault(key, {"case": prog, "msg": msg, "key": key})
    stats.violations = list(found.values())
    return stats


def derived_case(case):
    """Nested regions whose conditions are DERIVED from the conditions of the regions around them (c & e inside the region
    of c, ~c in an else-like region, c | e ...): o { c { t = derive(c, e); t { body } } } with an invalid body. Whenever some
    enclosing condition (o, c or t) is false nothing raises and the recorded witness satisfies everything; when all are true
    the body fails as it does unguarded."""
    o, c, e, derive, body, form = case["o"], case["c"], case["e"], case["derive"], case["body"], case["form"]
    bodies = {"truediv": [["const", 2], ["op", "truediv", [3, 5 + 0]]], "assert": [["const", 8], ["op", "assert_eq", [3, 5]]],
              "lt": [["const", 1 << 200], ["op", "lt", [3, 5]]], "mul": [["const", 2], ["op", "mul", [3, 5]]]}
    dstmt = {"and": ["op", "and", [1, 2]], "and-rev": ["op", "and", [2, 1]], "or": ["op", "or", [1, 2]], "xor": ["op", "xor", [1, 2]],
             "not": ["op", "invert", [1]], "same": ["op", "and", [1, 1]]}[derive]
    inner = [dstmt, ["guard", form, 4, bodies[body]]]
    prog = {"cfg": {"p": case["p"], "b": 8, "r": 0, "ignore": False},
            "stmts": [["in", "priv", "B", o], ["in", "priv", "B", c], ["in", "priv", "B", e], ["in", "priv", "I", 7],
                      ["guard", form, 0, [["guard", form, 1, inner]]]]}
    t = {"and": c & e, "and-rev": c & e, "or": c | e, "xor": c ^ e, "not": 1 - c, "same": c}[derive]
    live = o and c and t
    m = ir.run_program(prog)
    invalid = body in ("truediv", "assert", "lt")
    if m.raised is not None:
        if live and invalid:
            return None, prog
        return "conditions o=%d, c=%d, %s -> %d, body %s: raised %s: %s although %s" % (
            o, c, derive, t, body, type(m.raised[1]).__name__, m.raised[1], "the body is valid" if live else "an enclosing condition is false"), prog
    if live and invalid:
        return "conditions o=%d, c=%d, %s -> %d all true: the invalid body (%s) did not fail as it does unguarded" % (o, c, derive, t, body), prog
    msg = consistent(m)
    if msg:
        return "conditions o=%d, c=%d, %s -> %d, body %s: %s" % (o, c, derive, t, body, msg), prog
    return None, prog


def derived_shard(p):
    import itertools
    stats = core.Stats()
    found = {}
    for o, c, e, derive, body, form in itertools.product((0, 1), (0, 1), (0, 1), ("and", "and-rev", "or", "xor", "not", "same"), ("truediv", "assert", "lt", "mul"), ("lc", "bool")):
        case = {"part": "derived", "p": p, "o": o, "c": c, "e": e, "derive": derive, "body": body, "form": form}
        msg, prog = derived_case(case)
        stats.case(case, not (o and c), ("derived-condition:" + derive,), sample_cap=1)
        if msg:
            found.setdefault("derived." + derive + "." + body, {"case": case, "key": "derived." + derive, "msg": msg})
    stats.violations = list(found.values())
    return stats


def replay(case):
    part = case.get("part")
    if part == "derived":
        return derived_case(case)[0]
    if part == "lazy":
        return lazy_case(case)[0]
    if part == "enforce":
        ks = {k.name: k for k in c03.kinds(case["b"])}
        prm = case["param"]
        if isinstance(prm, list):
            prm = tuple(prm)
        return enforce_case(ks[case["kind"]], prm, case["p"], case["b"], case["g"], None, case.get("then_top", False), case.get("shape"))
    m = ir.run_program(case)
    if m.raised is not None:
        return "raised %s: %s at %r" % (type(m.raised[1]).__name__, m.raised[1], m.raised[0])
    msg = consistent(m)
    if msg is None and case.get("tail"):
        npre = [i for i, s_ in enumerate(case["stmts"]) if s_[0] == "guard"][0]
        msg = live_tail(case, npre, list(range(1, npre)))
    return msg


def cells(maxlen=3):
    out = []
    for name in ir.OPS:
        if name in SKIP_OPS:
            continue
        for ts in opgrid.type_combos(name):
            if any(t in "LA" for t in ts) or len(ts) > maxlen:
                continue
            if sum(1 for t in ts if t in "IBF") > 2:
                continue
            out.append((name, "".join(ts)))
    return out


def run(ctx):
    from harness.checks.c05 import replay_known
    ctx.rule = RULE
    ctx.assumptions = ["an exception under a false guard counts as value-caused when the same call succeeds unguarded for "
                       "other secret operand values of the same types and constants", "recorder, evaluator, search engine"]
    cs = cells()
    total = core.Stats()
    if ctx.tier == "quick":
        sweeps = [(3, "bn128")]
        lazies = [(2, 67)]
        enf = [(67, 2)]
        nbody = 40
    else:
        sweeps = [(2, 67), (3, "bn128"), (4, "bls12-381")]
        lazies = [(2, 67), (3, 257), (3, "curve25519")]
        enf = [(67, 2), (257, 3)]
        nbody = 2500
    for b, p in sweeps:
        total.merge_json(core.run_shards("harness.checks.c07", "sweep_shard", [dict(cells=cs[i::16], b=b, p=p) for i in range(16)]).to_json())
    from harness import refsem
    lazy_ops = set(refsem.BINARY + refsem.UNARY + ["toB", "toF", "ensurebool", "ensurefxp"]) - {"divmod", "pos"}
    lc = [c for c in cs if len(c[1]) <= 2 and c[0] in lazy_ops]
    for b, p in lazies:
        total.merge_json(core.run_shards("harness.checks.c07", "lazy_shard",
                                         [dict(cells=lc[i::16], b=b, p=p, small=ctx.tier == "quick") for i in range(16)]).to_json())
    for p, b in enf:
        items = [(k.name, prm) for k in c03.kinds(b) for prm in k.params if k.optype == "I"]
        total.merge_json(core.run_shards("harness.checks.c07", "enforce_shard", [dict(items=items[i::16], p=p, b=b) for i in range(16)]).to_json())
    total.merge_json(core.run_shards("harness.checks.c07", "derived_shard", [dict(p="bn128"), dict(p="bls12-381")]).to_json())
    total.merge_json(core.run_shards("harness.checks.c07", "dead_chain_shard", [dict(b=b_, p=p_) for b_, p_ in ((4, "bn128"), (8, "bls12-381"), (16, "bn128"), (3, 257))]).to_json())
    total.merge_json(core.run_shards("harness.checks.c07", "body_shard", [dict(seed=ctx.seed * 1000 + i, n_examples=nbody) for i in range(16)]).to_json())
    ctx.stats = total
    replay_known(ctx, replay)
