"""C09: oblivious if/elif/else, while and for compute what native control flow computes."""
import re
import types

from hypothesis import given, strategies as st

from harness import core, env, r1cs, ir

RULE = ("structured programs (assignments of +,-,* expressions over tracked variables; if/elif/else on secret "
        "conditions: comparisons, boolean inputs, raw 0/1 LinCombs, &, ~; while loops with a secret condition, a public "
        "bound and _breakif; for loops over _range(secret_stop, max=M) with and without checkstopmax, with a start argument, "
        "and over a range object kept in a variable and iterated again by nested or later loops; variables that first come "
        "into existence in every branch of an if/else; the whole program at module level or inside a function with its own "
        "context; lazily evaluated if_then_else), nesting depth <= 3, rendered to two source texts: the documented oblivious idiom (one statement "
        "per line, exec'd on the recorder) and a native-Python twin on plain integers. Oracle: every tracked variable "
        "ends with the native value; all emitted constraints satisfied; guard state clean and block stack empty; the "
        "canonical trace is identical for a second input vector that takes other branches / iteration counts. "
        "Non-trivial = the two input vectors differ in the outcome of >= 1 secret condition and >= 1 assignment sits in "
        "a branch not taken; distinct by (program, inputs) digest.")
RULE += " Extensions (seeded rounds 10-15): containers written through local names taken before the block, programs compiled at large line offsets, programs run inside an except handler, an iteration cap (a loop that does not stop is a violation)."


CMP = ["<", "<=", "==", "!=", ">", ">="]


# ---- generation -------------------------------------------------------------

class G:
    def __init__(self, draw):
        self.draw = draw
        self.nvars = draw(st.integers(1, 3))
        self.nin = draw(st.integers(1, 3))
        self.nbool = draw(st.integers(0, 2))
        self.loopvars = []
        self.lists = draw(st.booleans())      # tracked list variable _.l (flat, 3) and _.m (nested, 2x2)
        self.fvar = draw(st.booleans())       # tracked fixed-point variable _.f (quarters; + and - only, so arithmetic is exact)
        self.counter = 0
        self.shared = []        # (loop id, max) of _range objects kept in a variable and still in scope
        self.budget = draw(st.integers(3, 12))

    def expr(self, depth=0):
        d = self.draw
        k = d(st.integers(0, 9 if depth < 2 else 4))
        if k <= 1:
            return ["v", d(st.integers(0, self.nvars - 1))]
        if k == 2:
            if self.lists and d(st.booleans()):
                if d(st.booleans()):
                    return ["l", d(st.integers(0, 2))]
                return ["m", d(st.integers(0, 1)), d(st.integers(0, 1))]
            return ["c", d(st.integers(-3, 5))]
        if k == 3:
            return ["in", d(st.integers(0, self.nin - 1))]
        if k == 4:
            if self.loopvars:
                return ["i", d(st.sampled_from(self.loopvars))]
            return ["c", d(st.integers(0, 3))]
        if k <= 7:
            return ["bin", d(st.sampled_from("++-")), self.expr(depth + 1), self.expr(depth + 1)]
        if k == 8:
            return ["bin", "*", self.expr(depth + 1), ["c", d(st.sampled_from([-1, 2]))]]
        return ["ite", self.cond(depth + 1), self.expr(depth + 1), self.expr(depth + 1), d(st.booleans()), d(st.booleans())]

    def cond(self, depth=0):
        d = self.draw
        k = d(st.integers(0, 9))
        if k == 5 and self.fvar and d(st.booleans()):
            return ["fcmp", d(st.sampled_from(CMP)), d(st.integers(-6, 6))]
        if k <= 5 or depth >= 2:
            return ["cmp", d(st.sampled_from(CMP)), self.expr(2), self.expr(2)]
        if k == 6 and self.nbool:
            return ["bool", d(st.integers(0, self.nbool - 1))]
        if k == 7 and self.nbool:
            return ["raw", d(st.integers(0, self.nbool - 1))]
        if k == 8:
            return ["and", self.cond(depth + 1), self.cond(depth + 1)]
        return ["not", self.cond(depth + 1)]

    def block(self, depth):
        n = self.draw(st.integers(1, 3))
        out = []
        scope = len(self.shared)
        for _ in range(n):
            if self.budget <= 0:
                break
            out.append(self.stmt(depth))
        if not out:
            out.append(["set", 0, self.expr()])
        del self.shared[scope:]        # range variables defined in this block are out of scope after it
        return out

    def stmt(self, depth):
        d = self.draw
        self.budget -= 1
        k = d(st.integers(0, 9)) if depth < 3 else 0
        if k <= 3 and self.fvar and d(st.integers(0, 4)) == 0:
            return ["setf", d(st.sampled_from("+-r")), d(st.integers(-6, 6))]
        if k <= 3 and self.lists and d(st.integers(0, 5)) == 0:
            # the container is reached through a local name taken just before the block (cnt = _.cnt hoisted out of the block, a
            # row of the nested list): the writes inside the block change the very object the context holds, in place
            writes = [["setl", d(st.integers(0, 2)), self.expr()] if d(st.booleans()) else ["setm", 0, d(st.integers(0, 1)), self.expr()]
                      for _ in range(d(st.integers(1, 2)))]
            return ["alias_if", self.cond(), writes]
        if k <= 3 and self.lists and d(st.integers(0, 7)) == 0:
            # "keep the best row": a whole list variable assigned to another one inside a block; both names hold ONE object when the
            # block is merged (the native twin copies: that is what the merge implements)
            return ["copyl_if", self.cond()]
        if k <= 3:
            if self.lists and d(st.integers(0, 2)) == 0:
                if d(st.booleans()):
                    return ["setl", d(st.integers(0, 2)), self.expr()]
                return ["setm", d(st.integers(0, 1)), d(st.integers(0, 1)), self.expr()]
            return ["set", d(st.integers(0, self.nvars - 1)), self.expr()]
        if k <= 6:
            arms = [[self.cond(), self.block(depth + 1)]]
            for _ in range(d(st.integers(0, 2))):
                arms.append([self.cond(), self.block(depth + 1)])
            els = self.block(depth + 1) if d(st.booleans()) else None
            if depth == 0 and d(st.integers(0, 3)) == 0:
                # a variable that does not exist before the statement and is assigned in EVERY branch (else included):
                # it exists afterwards, as in plain Python, and is read by the next statement
                if els is None:
                    els = self.block(depth + 1)
                self.counter += 1
                return ["if", arms, els, {"new": self.counter, "target": d(st.integers(0, self.nvars - 1)),
                                          "exprs": [self.expr() for _ in range(len(arms) + 1)]}]
            return ["if", arms, els]
        self.counter += 1
        if k <= 8:
            cid = self.counter
            c = self.cond()
            m = d(st.integers(0, 3))
            body = self.block(depth + 1)
            brk = self.cond() if d(st.booleans()) else None
            pos = d(st.integers(0, len(body)))
            if d(st.integers(0, 3)) == 0:
                brk = ["pubk", cid, d(st.integers(0, 2))]      # a PUBLIC break condition: the plain iteration counter reached c
                pos = d(st.integers(1, len(body))) if body else 0        # ... after at least one statement of the body
            return ["while", c, m, body, brk, pos, cid]
        lv = "i%d" % self.counter
        fid = self.counter
        opts = {}
        if self.shared and d(st.integers(0, 1)) == 0:
            # iterate again over a range object an enclosing or earlier loop also uses (r = range(n); for i in r: for j in r:)
            ref, m = d(st.sampled_from(self.shared))
            opts["reuse"] = ref
        else:
            m = d(st.integers(0, 3))
            if d(st.integers(0, 3)) == 0:
                opts["start"] = d(st.integers(1, 2))       # _range(start, stop, max=...)
                m = max(m, opts["start"])
            if "start" not in opts and d(st.integers(0, 4)) == 0:
                opts["pubstop"] = d(st.integers(0, 3))        # a PUBLIC bound: _range(3), no max
            if d(st.integers(0, 2)) == 0:
                opts["share"] = True
                self.shared.append((fid, m))
        if not opts and d(st.integers(0, 5)) == 0:
            # two oblivious ranges advanced in lockstep: for i, j in zip(_range(s, max=M), _range(z, max=M)) against
            # zip(range(s), range(z)); closed by one _endfor() per range
            opts["zip"] = True
        self.loopvars.append(lv)
        if opts.get("zip"):
            self.loopvars.append("j%d" % fid)
        body = self.block(depth + 1)
        brk = self.cond() if d(st.integers(0, 3)) == 0 and not opts.get("zip") else None
        pos = d(st.integers(0, len(body)))
        self.loopvars.remove(lv)
        if opts.get("zip"):
            self.loopvars.remove("j%d" % fid)
        return ["for", opts or None, m, lv, body, d(st.booleans()) and not opts.get("zip"), brk, pos, fid]


def draw_case(draw):
    g = G(draw)
    init = [draw(st.integers(-4, 6)) for _ in range(g.nvars)]
    init_secret = [draw(st.booleans()) for _ in range(g.nvars)]
    body = []
    while g.budget > 0:
        body.append(g.stmt(0))
    nfor = g.counter

    def vec():
        return {"ins": [draw(st.integers(-4, 6)) for _ in range(g.nin)],
                "bools": [draw(st.integers(0, 1)) for _ in range(g.nbool)],
                "stops": {}}
    va, vb = vec(), vec()
    # secret stop of every for loop: 0..M per vector
    def fill(stmts):
        for s in stmts:
            if s[0] == "for":
                if not (s[1] or {}).get("reuse") and "pubstop" not in (s[1] or {}):
                    lo = (s[1] or {}).get("start", 0)          # stop >= start: the precondition of _range(start, stop)
                    va["stops"][str(s[8])] = draw(st.integers(lo, s[2]))
                    vb["stops"][str(s[8])] = draw(st.integers(lo, s[2]))
                    if (s[1] or {}).get("zip"):
                        va["stops"]["z%d" % s[8]] = draw(st.integers(0, s[2]))
                        vb["stops"]["z%d" % s[8]] = draw(st.integers(0, s[2]))
                fill(s[4])
            elif s[0] == "while":
                fill(s[3])
            elif s[0] == "if":
                for c, blk in s[1]:
                    fill(blk)
                if s[2]:
                    fill(s[2])
    fill(body)
    lists = None
    if g.lists:
        lists = {"l": [draw(st.integers(-3, 5)) for _ in range(3)], "lsec": [draw(st.booleans()) for _ in range(3)],
                 "m": [[draw(st.integers(-3, 5)) for _ in range(2)] for _ in range(2)],
                 "l2": [draw(st.integers(-3, 5)) for _ in range(3)], "l2sec": [draw(st.booleans()) for _ in range(3)],
                 "msec": [[draw(st.booleans()) for _ in range(2)] for _ in range(2)],
                 # the flat list as a pysnark Array (element writes in place, like a list; native twin keeps a list)
                 "l_is_array": draw(st.booleans())}
    return {"nvars": g.nvars, "nin": g.nin, "nbool": g.nbool, "init": init, "init_secret": init_secret,
            "body": body, "a": va, "b": vb, "bitlength": 32, "lists": lists, "fvar": draw(st.integers(-8, 8)) if g.fvar else None, "in_function": draw(st.integers(0, 3)) == 0, "explicit_ctx": draw(st.integers(0, 3)) == 0,
            "first_line": draw(st.sampled_from([0, 0, 0, 250, 300, 1000, 70000])), "in_handler": draw(st.integers(0, 3)) == 0,
            "names": [draw(st.sampled_from(["x%d", "x%d", "_x%d", "__x%d", "x%d_", "X%d", "acc%d", "_%d"])) % i for i in range(g.nvars)]}


# ---- rendering ---------------------------------------------------------------

def r_expr(e, obl):
    t = e[0]
    if t == "v":
        return "_.x%d" % e[1]
    if t == "c":
        return "(%d)" % e[1]
    if t == "in":
        return "a%d" % e[1]
    if t == "i":
        return e[1]
    if t == "l":
        return "_.l[%d]" % e[1]
    if t == "m":
        return "_.m[%d][%d]" % (e[1], e[2])
    if t == "bin":
        return "(%s %s %s)" % (r_expr(e[2], obl), e[1], r_expr(e[3], obl))
    if t == "ite":
        c, x, y = r_cond(e[1], obl), r_expr(e[2], obl), r_expr(e[3], obl)
        if obl:
            xs = "(lambda: %s)" % x if e[4] else x
            ys = "(lambda: %s)" % y if e[5] else y
            return "if_then_else(B(%s), %s, %s)" % (c, xs, ys)
        return "(%s if %s else %s)" % (x, c, y)
    raise ValueError(e)


def r_cond(c, obl):
    t = c[0]
    if t == "cmp":
        a, b = r_expr(c[2], obl), r_expr(c[3], obl)
        if obl:
            # at least one side must be a traced value for the comparison to be traced
            return "(Z + %s %s %s)" % (a, c[1], b)
        return "T(%s %s %s)" % (a, c[1], b)
    if t == "fcmp":
        return ("(_.f %s (%s))" if obl else "T(_.f %s (%s))") % (c[1], repr(c[2] / 4.0))
    if t == "bool":
        return "q%d" % c[1] if obl else "T(q%d == 1)" % c[1]
    if t == "raw":
        return "w%d" % c[1] if obl else "T(q%d == 1)" % c[1]
    if t == "and":
        if obl:
            return "(B(%s) & B(%s))" % (r_cond(c[1], obl), r_cond(c[2], obl))
        # no short-circuit: the oblivious program evaluates both
        return "AND(%s, %s)" % (r_cond(c[1], obl), r_cond(c[2], obl))
    if t == "not":
        if obl:
            return "(~B(%s))" % r_cond(c[1], obl)
        return "(not %s)" % r_cond(c[1], obl)
    raise ValueError(c)


def vname(case, i):
    """attribute name of tracked variable i (any identifier is a legal variable name, leading underscores included)"""
    names = case.get("names")
    return names[i] if names else "x%d" % i


def render(case, obl):
    src = _render(case, obl)
    if case.get("names"):
        src = re.sub(r"_\.x(\d+)\b", lambda mo: "_." + vname(case, int(mo.group(1))), src)
    src = src.replace("_CTXNAME_", "__" if (obl and case.get("in_function")) else "_")
    if obl and case.get("in_function"):
        # the documented helper-function idiom (examples/branch2.py, test()): the function has its own context under
        # another name while the module keeps its own `_`
        body = src.replace("_.", "__.")
        lines = ["def prog(__):"] + ["    " + l for l in body.split("\n") if l.strip()] + ["    return __", "prog(CTX)"]
        return "\n".join(lines) + "\n"
    return src


def _render(case, obl):
    L = []
    # the context handed over explicitly (ctx=...) instead of being looked up in the caller's frame
    CX1 = "ctx=_CTXNAME_" if case.get("explicit_ctx") else ""
    CX2 = ", ctx=_CTXNAME_" if case.get("explicit_ctx") else ""

    def emit(ind, s):
        L.append("    " * ind + s)

    def block(stmts, ind):
        for s in stmts:
            stmt(s, ind)

    def stmt(s, ind):
        t = s[0]
        if t == "setf":
            c = repr(s[2] / 4.0)
            emit(ind, "_.f = " + {"+": "_.f + (%s)", "-": "_.f - (%s)", "r": "(%s) - _.f"}[s[1]] % c)
        elif t == "set":
            emit(ind, "_.x%d = %s" % (s[1], r_expr(s[2], obl)))
        elif t == "alias_if":
            emit(ind, "tl = _.l")
            emit(ind, "tm0 = _.m[0]")
            emit(ind, ("if _if(%s%s):" % (r_cond(s[1], obl), CX2)) if obl else "if %s:" % r_cond(s[1], obl))
            for w in s[2]:
                emit(ind + 1, ("tl[%d] = %s" % (w[1], r_expr(w[2], obl))) if w[0] == "setl" else "tm0[%d] = %s" % (w[2], r_expr(w[3], obl)))
            if obl:
                emit(ind, "_endif(%s)" % CX1)
        elif t == "copyl_if":
            emit(ind, ("if _if(%s%s):" % (r_cond(s[1], obl), CX2)) if obl else "if %s:" % r_cond(s[1], obl))
            emit(ind + 1, "_.l2 = _.l" if obl else "_.l2 = list(_.l)")
            if obl:
                emit(ind, "_endif(%s)" % CX1)
        elif t == "setl":
            emit(ind, "_.l[%d] = %s" % (s[1], r_expr(s[2], obl)))
        elif t == "setm":
            emit(ind, "_.m[%d][%d] = %s" % (s[1], s[2], r_expr(s[3], obl)))
        elif t == "if":
            arms, els = s[1], s[2]
            new = s[3] if len(s) > 3 else None

            def newvar(i, ind_):
                if new:
                    emit(ind_, "_.n%d = %s" % (new["new"], r_expr(new["exprs"][i], obl)))
            if obl:
                emit(ind, "if _if(%s%s):" % (r_cond(arms[0][0], obl), CX2))
                newvar(0, ind + 1)
                block(arms[0][1], ind + 1)
                for i, (c, blk) in enumerate(arms[1:]):
                    emit(ind, "if _elif(lambda: %s%s):" % (r_cond(c, obl), CX2))
                    newvar(i + 1, ind + 1)
                    block(blk, ind + 1)
                if els:
                    emit(ind, "if _else(%s):" % CX1)
                    newvar(len(arms), ind + 1)
                    block(els, ind + 1)
                emit(ind, "_endif(%s)" % CX1)
            else:
                emit(ind, "if %s:" % r_cond(arms[0][0], obl))
                newvar(0, ind + 1)
                block(arms[0][1], ind + 1)
                for i, (c, blk) in enumerate(arms[1:]):
                    emit(ind, "elif %s:" % r_cond(c, obl))
                    newvar(i + 1, ind + 1)
                    block(blk, ind + 1)
                if els:
                    emit(ind, "else:")
                    newvar(len(arms), ind + 1)
                    block(els, ind + 1)
            if new:
                emit(ind, "_.x%d = _.n%d" % (new["target"], new["new"]))
        elif t == "while":
            _, c, m, body, brk, pos, cid = s
            k = "k%d" % cid
            emit(ind, "%s = 0" % k)
            if obl:
                emit(ind, "while _while(%s%s) and %s != %d:" % (r_cond(c, obl), CX2, k, m))
            else:
                emit(ind, "while %s != %d and %s:" % (k, m, r_cond(c, obl)))
            block(body[:pos], ind + 1)
            if brk is not None and brk[0] == "pubk":
                if obl:
                    emit(ind + 1, "_breakif(k%d == %d%s)" % (brk[1], brk[2], CX2))
                else:
                    emit(ind + 1, "if k%d == %d: break" % (brk[1], brk[2]))
            elif brk is not None:
                if obl:
                    emit(ind + 1, "_breakif(B(%s)%s)" % (r_cond(brk, obl), CX2))
                else:
                    emit(ind + 1, "if %s: break" % r_cond(brk, obl))
            block(body[pos:], ind + 1)
            emit(ind + 1, "%s += 1" % k)
            if obl:
                emit(ind, "_endwhile(%s)" % CX1)
        elif t == "for":
            _, opts, m, lv, body, chk, brk, pos, cid = s
            opts = opts or {}
            start = "%d, " % opts["start"] if "start" in opts else ""
            if "pubstop" in opts:
                rng = ("_range(%d%s)" % (opts["pubstop"], CX2)) if obl else "range(%d)" % opts["pubstop"]
            elif obl:
                rng = "_range(%ss%d, max=%d%s%s)" % (start, cid, m, ", checkstopmax=True" if chk else "", CX2)
            else:
                rng = "range(%ss%d)" % (start, cid)
            if obl:
                rng = "CAP(%s)" % rng
            if opts.get("zip"):
                lv = "%s, j%d" % (lv, cid)
                rng = "zip(%s, %s)" % (rng, ("CAP(_range(sz%d, max=%d%s))" % (cid, m, CX2)) if obl else "range(sz%d)" % cid)
            if "reuse" in opts:
                rng = "r%d" % opts["reuse"]
            elif opts.get("share"):
                emit(ind, "r%d = %s" % (cid, rng))
                rng = "r%d" % cid
            emit(ind, "for %s in %s:" % (lv, rng))
            block(body[:pos], ind + 1)
            if brk is not None:
                if obl:
                    emit(ind + 1, "_breakif(B(%s)%s)" % (r_cond(brk, obl), CX2))
                else:
                    emit(ind + 1, "if %s: break" % r_cond(brk, obl))
            block(body[pos:], ind + 1)
            if not body and brk is None:
                emit(ind + 1, "pass")
            if obl:
                emit(ind, "_endfor(%s)" % CX1)
                if opts.get("zip"):
                    emit(ind, "_endfor(%s)" % CX1)
    block(case["body"], 0)
    return "\n".join(L) + "\n"


# ---- execution ----------------------------------------------------------------

def run_native(case, vec):
    outcomes = []

    def T(x):
        outcomes.append(bool(x))
        return bool(x)
    ns = {"_": types.SimpleNamespace(), "T": T, "AND": lambda a, b: a and b}
    for i, v in enumerate(case["init"]):
        setattr(ns["_"], vname(case, i), v)
    if case.get("lists"):
        ns["_"].l = list(case["lists"]["l"])
        ns["_"].m = [list(r) for r in case["lists"]["m"]]
        ns["_"].l2 = list(case["lists"].get("l2", [0, 0, 0]))
    if case.get("fvar") is not None:
        ns["_"].f = case["fvar"] / 4.0
    for i, v in enumerate(vec["ins"]):
        ns["a%d" % i] = v
    for i, v in enumerate(vec["bools"]):
        ns["q%d" % i] = v
    for k, v in vec["stops"].items():
        ns["s" + k] = v
    exec(compile(render(case, False), "<c09-native>", "exec"), ns)
    out = [getattr(ns["_"], vname(case, i)) for i in range(case["nvars"])]
    if case.get("lists"):
        out += list(ns["_"].l) + [x for r in ns["_"].m for x in r] + list(ns["_"].l2)
    if case.get("fvar") is not None:
        out.append(int(ns["_"].f * 16))        # representation at resolution 4
    return out, outcomes


class LoopRunaway(Exception):
    pass


class CappedRange:
    """The library's range object behind a counter: every generated loop has a public bound of at most 3 iterations, so a
    loop still running after 40 is not going to stop (the native twin stopped long ago). Every `for` gets the iterator the
    library hands out for it (one range object may drive several loops, also nested ones)."""

    def __init__(self, rng):
        self.rng = rng

    def __iter__(self):
        return CappedIter(iter(self.rng))


class CappedIter:
    def __init__(self, it):
        self.it, self.n = it, 0

    def __iter__(self):
        return self

    def __next__(self):
        self.n += 1
        if self.n > 40:
            raise LoopRunaway("a for loop over _range with a public bound of at most 3 is in its 40th iteration")
        return next(self.it)


def run_oblivious(case, vec, p):
    e = env.reset(p, case["bitlength"], 4 if case.get("fvar") is not None else 0)
    rt, bo, br = e.rt, e.bo, e.br

    def B(c):
        return c if isinstance(c, bo.LinCombBool) else bo.LinCombBool(c)
    ns = {"_": br.BranchingValues(), "B": B, "Z": rt.LinComb.ZERO, "if_then_else": br.if_then_else}
    if case.get("in_function"):
        ns["CTX"] = ns["_"]                 # the program's own context, passed to the function as `__`
        ns["_"] = br.BranchingValues()      # the module's context: must stay untouched
        ns["_"].unrelated = rt.PrivVal(41)
        ctx_obj = ns["CTX"]
    else:
        ctx_obj = ns["_"]
    for nm in ("_if", "_elif", "_else", "_endif", "_while", "_endwhile", "_breakif", "_range", "_endfor"):
        ns[nm] = getattr(br, nm)
    ns["CAP"] = CappedRange         # applied in the program text: _range looks for its context in the frame that calls it
    for i, v in enumerate(case["init"]):
        setattr(ctx_obj, vname(case, i), rt.PrivVal(v) if case["init_secret"][i] else v)
    if case.get("lists"):
        L = case["lists"]
        ctx_obj.l = [rt.PrivVal(v) if s_ else v for v, s_ in zip(L["l"], L["lsec"])]
        ctx_obj.l2 = [rt.PrivVal(v) if s_ else v for v, s_ in zip(L.get("l2", [0, 0, 0]), L.get("l2sec", [False] * 3))]
        if L.get("l_is_array"):
            ctx_obj.l = e.ar.Array(ctx_obj.l)
            ctx_obj.l2 = e.ar.Array(ctx_obj.l2)
        ctx_obj.m = [[rt.PrivVal(v) if s_ else v for v, s_ in zip(r, rs)] for r, rs in zip(L["m"], L["msec"])]
    if case.get("fvar") is not None:
        ctx_obj.f = e.fx.PrivValFxp(case["fvar"] / 4.0)
    for i, v in enumerate(vec["ins"]):
        ns["a%d" % i] = rt.PrivVal(v)
    for i, v in enumerate(vec["bools"]):
        ns["q%d" % i] = bo.PrivValBool(v)
        ns["w%d" % i] = rt.PrivVal(v)
    for k, v in vec["stops"].items():
        ns["s" + k] = rt.PrivVal(v)
    # the program may sit anywhere in a long source file: its statements then have large line numbers
    src = "\n" * case.get("first_line", 0) + render(case, True)
    try:
        if case.get("in_handler"):
            # the whole computation runs inside an except block (a fallback computed after a caught failure): an exception is
            # "being handled" all the while, which is none of the library's business
            try:
                rt.PrivVal(5).assert_lt(3)
            except AssertionError:
                exec(compile(src, "<c09-oblivious>", "exec"), ns)
        else:
            exec(compile(src, "<c09-oblivious>", "exec"), ns)
    except Exception as ex:
        del ctx_obj.stack[:]
        del ns["_"].stack[:]
        return None, ex, None
    ctx = ctx_obj
    if case.get("in_function") and (len(ns["_"].stack) or list(ns["_"].vals) != ["unrelated"]):
        del ns["_"].stack[:]
        del ctx_obj.stack[:]
        return [None] * 99, "the module-level context `_` was used by a function that has its own context", None
    finals = []
    leaves = []
    objs = [getattr(ctx, vname(case, i)) for i in range(case["nvars"])]        # read as the program would: _.name
    if case.get("lists"):
        lobj = getattr(ctx, "l")
        l2obj = getattr(ctx, "l2")
        objs += list(lobj.arr if isinstance(lobj, e.ar.Array) else lobj) + [x for r in getattr(ctx, "m") for x in r] + list(l2obj.arr if isinstance(l2obj, e.ar.Array) else l2obj)
    if case.get("fvar") is not None:
        objs.append(getattr(ctx, "f"))
    for x in objs:
        t = ir.classify(e, x)
        finals.append(ir.pyval(x, t) if t in "IBF" else x)
        for path, leaf in ir.secret_leaves(e, x, "x"):
            leaves.append(leaf)
    state = None
    if len(ctx.stack) != 0:
        state = "block stack not empty (%d)" % len(ctx.stack)
        del ctx.stack[:]
    elif rt.guard is not None or rt._ignore_errors or rt.LinComb.ONE is not rt.LinComb.ONE_SAFE:
        state = "guard state not restored after the program"
    snap = e.rec.snapshot()
    bad = r1cs.evaluate(snap)
    if bad and state is None:
        state = "constraint #%d violated by the recorded witness" % bad[0]
    for leaf in leaves:
        if (leaf.value - r1cs.lc_value(leaf.lc.d, snap["vals"], snap["p"])) % snap["p"] and state is None:
            state = "a final variable reports %d but its wire expression evaluates differently" % leaf.value
    canon = r1cs.canonical(snap, [l.lc.d for l in leaves])
    return finals, state, canon


def judge(case, p=None):
    """returns (message or None, info)"""
    from harness.recorder import BN128
    p = p or case.get("p") or BN128
    info = {"differ": False, "untaken_assign": False}
    na, oa = run_native(case, case["a"])
    nb, ob = run_native(case, case["b"])
    info["differ"] = oa != ob
    info["untaken_assign"] = (False in oa) or (False in ob)
    fa, sa, ca = run_oblivious(case, case["a"], p)
    if fa is None:
        return "oblivious program raised %s: %s on inputs %r (native twin ends with %r)" % (type(sa).__name__, sa, case["a"], na), info
    if sa:
        return "inputs %r: %s" % (case["a"], sa), info
    if [v % p for v in fa] != [v % p for v in na]:
        return "inputs %r: oblivious program ends with %r, native twin with %r" % (case["a"], fa, na), info
    fb, sb, cb = run_oblivious(case, case["b"], p)
    if fb is None:
        return "oblivious program raised %s: %s on inputs %r (native twin ends with %r)" % (type(sb).__name__, sb, case["b"], nb), info
    if sb:
        return "inputs %r: %s" % (case["b"], sb), info
    if [v % p for v in fb] != [v % p for v in nb]:
        return "inputs %r: oblivious program ends with %r, native twin with %r" % (case["b"], fb, nb), info
    if ca != cb:
        from harness.checks.c06 import describe_diff
        return "traces differ between inputs %r and %r: %s" % (case["a"], case["b"], describe_diff(ca, cb)), info
    info["constraints"] = len(ca[1])
    return None, info


def kinds_in(case):
    out = set()

    def walk(stmts, depth):
        for s in stmts:
            out.add(s[0])
            if depth >= 2:
                out.add("depth>=2")
            if s[0] == "if":
                if len(s) > 3 and s[3]:
                    out.add("variable-defined-in-every-branch")
                if len(s[1]) > 1:
                    out.add("elif")
                if s[2]:
                    out.add("else")
                for c, blk in s[1]:
                    walk(blk, depth + 1)
                if s[2]:
                    walk(s[2], depth + 1)
            elif s[0] == "while":
                if s[4] is not None:
                    out.add("breakif" if s[4][0] != "pubk" else "breakif-public-condition")
                walk(s[3], depth + 1)
            elif s[0] == "for":
                for k_ in (s[1] or {}):
                    out.add("range:" + k_)
                if s[5]:
                    out.add("checkstopmax")
                if s[6] is not None:
                    out.add("breakif")
                walk(s[4], depth + 1)
    walk(case["body"], 0)
    if case.get("lists"):
        out.add("list-variables")
        if case["lists"].get("l_is_array"):
            out.add("array-variable")
    if case.get("in_function"):
        out.add("in-function-with-own-context")
    if case.get("explicit_ctx"):
        out.add("explicit-ctx-argument")
    if case.get("fvar") is not None:
        out.add("fixed-point-variable")
    src = render(case, True)
    if "lambda: (" in src or "(lambda:" in src:
        out.add("lazy-ite")
    return out


def shard(seed, n_examples):
    stats = core.Stats()
    from harness.recorder import REAL_FIELDS

    @given(st.data())
    def test(data):
        case = draw_case(data.draw)
        case["p"] = REAL_FIELDS[data.draw(st.sampled_from(sorted(REAL_FIELDS)))]
        msg, info = judge(case)
        nt = info["differ"] and info["untaken_assign"] and msg is None
        stats.case(case if nt else None, nt, kinds_in(case))
        if msg:
            raise core.Violation(case, msg, "program")

    v = core.drive(test, seed, n_examples)
    if v is not None:
        if "body" in v.case:          # (an exception raised inside the library arrives without a program)
            v.case["oblivious_source"] = render(v.case, True).split("\n")
            v.case["native_source"] = render(v.case, False).split("\n")
        stats.violations.append({"case": v.case, "msg": v.msg, "key": v.key})
    return stats


def replay(case):
    return judge(case)[0]


def run(ctx):
    ctx.rule = RULE
    ctx.assumptions = ["native twin rendered from the same AST is the reference (no short-circuit in 'and', public loop bounds)",
                       "recorder, evaluator; values stay below 2^31 by construction (bitlength 32)"]
    n = 100 if ctx.tier == "quick" else 2000
    ctx.stats = core.run_shards("harness.checks.c09", "shard",
                                [dict(seed=ctx.seed * 1000 + i, n_examples=n) for i in range(16)])
