"""C14: fixed-point operations equal exact scaled-integer arithmetic."""
import itertools
import json
import os
import math
from fractions import Fraction

from hypothesis import given, strategies as st

from harness import core, ir, opgrid, refsem
from harness.recorder import REAL_FIELDS

RULE = ("(operator among + - neg * / // % divmod, six comparisons, val(), abs) x operand type pair from {fixed-point, "
        "secret int, secret bool, int, float} in both orders with at least one fixed-point operand x operand values as "
        "exact dyadics incl. negatives and fractions x resolution x bitlength. Grid part: resolution 3, all scaled "
        "values -20..20 for fixed-point/float operands, -3..3 for integers, {0,1} for booleans, every type pair: "
        "enumerated completely. Random part: Hypothesis cases over resolution 0..12, bitlength 8..32, three fields. "
        "Oracle: Fraction reference on the represented numbers (products floor(a*b/2^r) on representations, quotients "
        "floor(a*2^r/b), Python // and %, order comparisons, val() = representation/2^r); a returned value must equal "
        "it, inside the documented no-raise domain the call must return. Compositions: random trees of 2-4 fixed-point operations over mixed leaves, every "
        "intermediate compared with the reference evaluated step by step. Non-trivial = mixed operand kinds or a "
        "non-integer / negative operand (single operations), >= 2 completed fixed-point operations (compositions); distinct by (op, types, values, resolution, bitlength).")
RULE += " Extensions (seeded rounds 10-15): resolutions 14-30 at bitlength 64, Python's rounding protocols on fixed-point values, compositions with abs / squares / duplicated inputs ending in a comparison with 0, values read back under the real nobackend backend."


BIN = ["add", "sub", "mul", "truediv", "floordiv", "mod", "divmod", "lt", "le", "gt", "ge", "eq", "ne"]
UN = ["neg", "abs", "val", "pos", "copy", "deepcopy", "int_of", "round_of", "round0_of", "floor_of", "ceil_of", "trunc_of"]
CMP = refsem.CMP
TYPES = "FIBif"


def number(t, v, r):
    """represented number of an operand"""
    if t in "Ff":
        return Fraction(v, 1 << r)
    return Fraction(int(v))


def ref(name, ts, vals, r):
    """('num', Fraction) | ('pair', q, rem) | ('bool', 0/1) | ('float', x) | RAISES"""
    S = 1 << r
    if name in UN:
        x = number(ts[0], vals[0], r)
        if name == "neg":
            return ("num", -x)
        if name == "abs":
            return ("num", abs(x))
        if name in ("pos", "copy", "deepcopy"):
            return ("num", x)
        if name in ("int_of", "round_of", "round0_of", "floor_of", "ceil_of", "trunc_of"):
            # Python's numeric protocols on the represented number (refused today): round half to even, floor, ceil, toward zero
            return ("num", Fraction({"int_of": math.trunc, "trunc_of": math.trunc, "floor_of": math.floor, "ceil_of": math.ceil,
                                     "round_of": round, "round0_of": round}[name](x)))
        return ("float", float(x))
    a, b = number(ts[0], vals[0], r), number(ts[1], vals[1], r)
    ra, rb = a * S, b * S                  # representations (integers)
    if name in ("lshift", "rshift"):
        k = int(vals[1])
        if ts != "Fi" or k < 0 or (name == "rshift" and ra < 0):
            return refsem.RAISES
        return ("num", Fraction(int(ra) << k, S) if name == "lshift" else Fraction(int(ra) >> k, S))
    if name == "pow":
        n = int(vals[1])
        if ts != "Fi" or n < 0:
            return refsem.RAISES
        if n == 0:
            return ("num", Fraction(1))    # x ** 0 == 1.0
        rep = ra
        for _ in range(n - 1):
            rep = math.floor(ra * rep / S)
        return ("num", Fraction(rep, S))
    if name == "add":
        return ("num", a + b)
    if name == "sub":
        return ("num", a - b)
    if name == "mul":
        if ts[0] in "IBi" or ts[1] in "IBi":
            return ("num", a * b)          # multiplication by integers is exact
        return ("num", Fraction(math.floor(ra * rb / S), S))
    if name == "truediv":
        if b == 0:
            return refsem.RAISES
        return ("num", Fraction(math.floor(ra * S / rb), S))
    if name in ("floordiv", "mod", "divmod"):
        if b == 0:
            return refsem.RAISES
        q = math.floor(a / b)
        rem = a - q * b
        return {"floordiv": ("num", Fraction(q)), "mod": ("num", rem), "divmod": ("pair", Fraction(q), rem)}[name]
    return ("bool", int(CMP[name](a, b)))


def in_core(name, ts, vals, r, b):
    """conservative no-raise domain (DESIGN.md section 3)"""
    S = 1 << r
    lim = 1 << b
    if name in ("neg", "pos", "val", "copy", "deepcopy"):
        return True
    if name == "abs":
        return abs(number(ts[0], vals[0], r) * S) < lim // 2
    if name in ("lshift", "rshift"):
        x, k = int(number(ts[0], vals[0], r) * S), int(vals[1])
        if name == "lshift":
            return ts == "Fi" and 0 <= k <= 8 and abs(x << k) < lim // 2
        return ts == "Fi" and 0 <= x < lim and 0 <= k < b
    if name == "pow":
        x = number(ts[0], vals[0], r) * S
        return ts == "Fi" and 0 <= int(vals[1]) <= 4 and abs(x) ** max(1, int(vals[1])) < lim * S ** max(0, int(vals[1]) - 1) // 4
    if "B" in ts and name not in ("add", "sub", "mul"):
        return False
    if len(ts) < 2:
        return False          # the numeric protocols (int, round, floor ...): no promise that they are supported
    x, y = number(ts[0], vals[0], r) * S, number(ts[1], vals[1], r) * S
    if name in ("add", "sub"):
        return True
    if name == "mul":
        if ts[0] in "IBi" or ts[1] in "IBi":
            return True
        # rescaling divides by 2^r with the integer gadget: needs r < bitlength-1 and a product in range
        return r <= b - 2 and abs(x * y) < lim * S // 2
    if name in ("lt", "le", "gt", "ge"):
        return abs(x - y) + 1 < lim
    if name in ("eq", "ne"):
        return True
    if name == "divmod" and ts[0] != "F":
        return False                       # no reflected divmod on the fixed-point type
    if name in ("truediv", "floordiv", "mod", "divmod"):
        return 1 <= y < lim // 2 and abs(x) * S < lim * lim
    return False


def to_number(v, t, r):
    if t == "F":
        return Fraction(v, 1 << r)
    if t in "IBib":
        return Fraction(int(v))
    if t == "f":
        return Fraction(v)
    return None


def judge(cfg, name, args):
    """the operation as a binary operator and, where Python has one, as an augmented assignment on a secret left operand"""
    res, prog = _judge(cfg, name, args, None)
    if res is None and name in ir.INPLACE and args[0][0] in "IBF":
        res, prog = _judge(cfg, name, args, "inplace")
        if res is not None:
            res = (res[0], "augmented assignment: " + res[1])
    if res is None:
        # the user's global ignore_errors(True) (examples/sudoku.py): operations that are valid must give the same values
        res, prog = _judge(cfg, name, args, "ignore")
        if res is not None:
            res = (res[0], "with ignore_errors(True): " + res[1])
    if res is None and len(args) == 2 and args[0][0] in "IBF" and list(args[0]) == list(args[1]):
        res, prog = _judge(cfg, name, args, "alias")
        if res is not None:
            res = (res[0], "the same object as both operands: " + res[1])
    return res, prog


def _judge(cfg, name, args, variant):
    ts = "".join(a[0] for a in args)
    if any(a[0] == "B" and a[2] not in (0, 1) for a in args):
        return None, None        # not a boolean: no such input exists outside error suppression
    vals = [a[2][1] if isinstance(a[2], list) else a[2] for a in args]
    r, b = cfg["r"], cfg["b"]
    prog = opgrid.single(cfg, name, args, "ignore" if variant == "ignore" else "normal", inplace=variant == "inplace", alias=variant == "alias")
    m = ir.run_program(prog)
    exp = ref(name, ts, vals, r)
    n = len(args)
    if variant == "ignore" and (exp is refsem.RAISES or not in_core(name, ts, vals, r, b)):
        return None, prog        # with errors suppressed only the valid cases have a defined value
    if variant == "alias":
        n, args = 1, args[:1]
    if m.raised is not None:
        if len(m.vals) < n:
            return None, prog
        if exp is not refsem.RAISES and in_core(name, ts, vals, r, b):
            e = m.raised[1]
            return ("raised-in-core", "%s%r on %s (resolution %d, bitlength %d) raised %s: %s inside the documented domain" % (
                name, tuple(vals), ts, r, b, type(e).__name__, e)), prog
        return None, prog
    got, gts = opgrid.results(m, n)
    for i, a in enumerate(args):
        if a[0] in "IBF" and m.refval(i) != int(a[2]):
            return ("operand-altered", "%s%r on %s changed the reported value of operand %d from %d to %d" % (
                name, tuple(vals), ts, i, int(a[2]), m.refval(i))), prog
    if exp is refsem.RAISES:
        return ("returned-where-reference-raises", "%s%r on %s returned %r where the reference raises" % (name, tuple(vals), ts, got)), prog
    p = m.p
    if exp[0] == "float":
        ok = len(got) == 1 and isinstance(got[0], float) and got[0] == exp[1]
        want = [exp[1]]
    else:
        want = list(exp[1:])
        nums = [to_number(g, t, r) for g, t in zip(got, gts)]
        ok = len(nums) == len(want) and all(x is not None for x in nums)
        if ok:
            for x, w in zip(nums, want):
                # the representation is the integer itself (reading back divides it by 2^r), not a residue modulo p
                if x != Fraction(w):
                    ok = False
    if not ok:
        return ("wrong-value", "%s%r on %s (resolution %d): returned %r (types %s), exact scaled-integer arithmetic gives %s" % (
            name, tuple(vals), ts, r, [str(to_number(g, t, r)) if to_number(g, t, r) is not None else g for g, t in zip(got, gts)],
            "".join(gts), [str(w) for w in want])), prog
    return None, prog


def pairs():
    out = []
    for name in BIN:
        for ta in TYPES:
            for tb in TYPES:
                if "F" in (ta, tb):
                    out.append((name, ta + tb))
    for name in UN:
        out.append((name, "F"))
    out.append(("pow", "Fi"))        # fixed point ** constant integer: repeated product (x * x**(n-1)), each product floored
    out.append(("lshift", "Fi"))     # shifts of the representation by a constant: x * 2^k exactly, floor(x / 2^k)
    out.append(("rshift", "Fi"))
    return out


def mkarg(t, v, r, i=0):
    if t == "f":
        return ("f", None, ["f", v, 1 << r])
    return (t, "priv" if i % 2 == 0 else "pub", v)


def grid_shard(cells, r, b, p):
    stats = core.Stats()
    known = core.load_known("C14")
    found = {}
    cfg = {"p": p, "b": b, "r": r, "ignore": False}
    big = list(range(-20, 21))
    small = list(range(-3, 4))
    for name, ts in cells:
        # integer constants: small ones, and ones whose scaled form no longer fits the bitlength (n * 2^r >= 2^b)
        wide = small + [1 << max(1, b - r), (1 << max(1, b - r)) + 44] if name in ("mod", "floordiv", "divmod", "truediv", "mul") else small
        pools = [big if t in "Ff" else [0, 1] if t == "B" else (wide if t == "i" else small) for t in ts]
        for vals in itertools.product(*pools):
            args = [mkarg(t, v, r, i) for i, (t, v) in enumerate(zip(ts, vals))]
            res, prog = judge(cfg, name, args)
            nt = len(set(ts)) > 1 or any(v < 0 or (t in "Ff" and v % (1 << r)) for t, v in zip(ts, vals))
            stats.case([name, ts, list(vals), r, b], nt, ("op:" + name, "kinds:" + ts), sample_cap=2)
            if res is not None:
                key = "%s.%s.%s" % (name, ts, res[0])
                if key in known:
                    stats.excluded[key] += 1
                elif key not in found:
                    found[key] = {"case": prog, "msg": res[1], "key": key}
    stats.violations = list(found.values())
    return stats


def random_shard(seed, n_examples):
    stats = core.Stats()
    known = core.load_known("C14")
    cells = pairs()

    @given(st.data())
    def test(data):
        draw = data.draw
        name, ts = draw(st.sampled_from(cells))
        r = draw(st.one_of(st.integers(0, 12), st.integers(0, 12), st.sampled_from([14, 16, 20, 24, 30])))
        b = draw(st.sampled_from([8, 16, 16, 32])) if r <= 12 else 64
        cfg = {"p": draw(st.sampled_from(sorted(REAL_FIELDS))), "b": b, "r": r, "ignore": False}
        # high resolutions: floats n / 2^r whose decimal expansion is far longer than the 17 digits repr() prints; still exact
        # binary fractions (|n| < 2^40), so the conversion must reproduce n
        lim = 1 << (b - 2) if r <= 12 else 1 << 40
        reps = st.one_of(st.integers(-40, 40), st.integers(-lim, lim), st.integers(-(1 << r) * 4, (1 << r) * 4),
                         st.sampled_from([0, 1, -1, 1 << r, -(1 << r), (1 << r) + 1, (1 << r) - 1]))
        ints = st.one_of(st.integers(-5, 5), st.integers(-lim >> r, lim >> r))
        vals = [draw(reps) if t in "Ff" else draw(st.integers(0, 1)) if t == "B" else draw(ints) for t in ts]
        args = [mkarg(t, v, r, i) for i, (t, v) in enumerate(zip(ts, vals))]
        res, prog = judge(cfg, name, args)
        nt = len(set(ts)) > 1 or any(v < 0 or (t in "Ff" and v % (1 << r)) for t, v in zip(ts, vals))
        stats.case([name, ts, vals, r, b], nt, ("op:" + name, "kinds:" + ts, "resolution:%d" % r), sample_cap=3)
        if res is not None:
            key = "%s.%s.%s" % (name, ts, res[0])
            if key in known:
                stats.excluded[key] += 1
            else:
                raise core.Violation(prog, res[1], key)

    v = core.drive(test, seed, n_examples)
    if v is not None:
        stats.violations.append({"case": v.case, "msg": v.msg, "key": v.key})
    return stats


# ---- compositions of fixed-point operations ---------------------------------------

COMP_OPS = ["add", "sub", "mul", "truediv", "floordiv", "mod", "neg", "abs", "sub", "mul"]


def compose_case(case):
    """case: {"cfg":..., "leaves": [(type, value)...], "nodes": [(op, i, j|None)...]} ; node k refers to
    entries (leaves first, then earlier nodes). Returns (message or None, info)."""
    cfg = case["cfg"]
    r = cfg["r"]
    S = 1 << r
    stmts = []
    refs = []          # (type, Fraction number) per entry
    for t, v in case["leaves"]:
        if t in "IBF":
            stmts.append(["in", "priv", t, v])
        elif t == "f":
            stmts.append(["const", ["f", v, S]])
        else:
            stmts.append(["const", v])
        refs.append((t, number(t, v, r)))
    info = {"ops": []}
    for op, i, j in case["nodes"]:
        args = [i] if j is None else [i, j]
        ts = "".join(refs[a][0] for a in args)
        # reference on represented numbers
        vals = []
        for a in args:
            t, x = refs[a]
            vals.append(int(x * S) if t in "Ff" else int(x))
        if "F" not in ts:
            raise core.HarnessError("composition node without a fixed-point operand")
        e = ref(op, ts, vals, r)
        if e is refsem.RAISES:
            return None, info
        stmts.append(["op", op, args])
        refs.append(("B", Fraction(e[1])) if e[0] == "bool" else ("F", e[1]))
        info["ops"].append(op)
    prog = {"cfg": cfg, "stmts": [s_ for s_ in stmts if s_ is not None]}
    # env index of each entry (skipped nodes produce no value): recompute references
    idx, k = [], 0
    for s_ in stmts:
        idx.append(k)
        if s_ is not None:
            k += 1
    for s_ in prog["stmts"]:
        if s_[0] == "op":
            s_[2] = [idx[a] for a in s_[2]]
    m = ir.run_program(prog)
    if m.raised is not None:
        return None, info
    info["completed"] = True
    p = m.p
    for pos, s_ in enumerate(stmts):
        if s_ is None or s_[0] != "op":
            continue
        e = idx[pos]
        if e < len(m.vals) and refs[pos][0] == "B":
            if m.types[e] != "B" or int(m.refval(e)) != int(refs[pos][1]):
                return ("composition %r over leaves %r (resolution %d): node %d (%s) is %r, the order of the represented numbers gives %d" % (
                    case["nodes"], case["leaves"], r, pos - len(case["leaves"]), s_[1], m.refval(e), int(refs[pos][1]))), info
            continue
        if e >= len(m.vals) or m.types[e] != "F":
            continue
        got = m.vals[e].lc.value
        want = refs[pos][1] * S
        if want.denominator != 1 or (got - int(want)) % p:
            return ("composition %r over leaves %r (resolution %d): node %d (%s) has representation %d, exact scaled-integer "
                    "arithmetic gives %s" % (case["nodes"], case["leaves"], r, pos - len(case["leaves"]), s_[1], got, want)), info
    return None, info


def compose_shard(seed, n_examples):
    stats = core.Stats()

    @given(st.data())
    def test(data):
        draw = data.draw
        r = draw(st.sampled_from([1, 2, 3, 4, 8]))
        cfg = {"p": draw(st.sampled_from(sorted(REAL_FIELDS))), "b": 32, "r": r, "ignore": False}
        leaves = []
        for _ in range(draw(st.integers(2, 4))):
            t = draw(st.sampled_from("FFFIif"))
            if t in "Ff":
                v = draw(st.one_of(st.integers(-6 * (1 << r), 6 * (1 << r)), st.integers(1, 4).map(lambda k: k * (1 << r))))
            else:
                v = draw(st.integers(-4, 5))
            leaves.append((t, v))
        if not any(t == "F" for t, _ in leaves):
            leaves[0] = ("F", leaves[0][1] if leaves[0][0] in "Ff" else leaves[0][1] * (1 << r))
        if draw(st.integers(0, 2)) == 0:
            k_ = [k for k, (t, _) in enumerate(leaves) if t == "F"][0]
            leaves.append(leaves[k_])          # two inputs with the same type and value: differences are 0, squares meet themselves
        nodes = []
        n = len(leaves)
        fx = [k for k, (t, _) in enumerate(leaves) if t == "F"]     # every node has a fixed-point operand, hence is fixed-point
        for _ in range(draw(st.integers(2, 4))):
            op = draw(st.sampled_from(COMP_OPS))
            if op in ("neg", "abs"):
                i, j = draw(st.sampled_from(fx)), None
            elif op == "mul" and draw(st.integers(0, 3)) == 0:
                i = j = draw(st.sampled_from(fx))        # x * x: the very same object on both sides
            else:
                i, j = draw(st.integers(0, n - 1)), draw(st.sampled_from(fx))
                if draw(st.booleans()):
                    i, j = j, i
            nodes.append((op, i, j))
            fx.append(n)
            n += 1
        if draw(st.booleans()):
            # the chain ends in a comparison with the constant 0 (0 or 0.0): "is it positive / non-positive"
            zt = draw(st.sampled_from("if"))
            leaves.append((zt, 0))
            shift = 1
            nodes = [(op_, i_ + (shift if i_ >= len(leaves) - 1 else 0), None if j_ is None else j_ + (shift if j_ >= len(leaves) - 1 else 0)) for op_, i_, j_ in nodes]
            last = len(leaves) + len(nodes) - 1
            nodes.append((draw(st.sampled_from(["gt", "le", "lt", "ge", "eq", "ne"])), last, len(leaves) - 1))
        case = {"part": "compose", "cfg": cfg, "leaves": leaves, "nodes": nodes}
        msg, info = compose_case(case)
        nt = bool(info.get("completed")) and len(info["ops"]) >= 2
        stats.case(case if nt else None, nt, ["compose:" + "+".join(sorted(set(info["ops"])))] if nt else ["compose:incomplete"])
        if msg:
            raise core.Violation(case, msg, "compose")

    v = core.drive(test, seed, n_examples)
    if v is not None:
        stats.violations.append({"case": v.case, "msg": v.msg, "key": v.key})
    return stats


NOBACKEND_CHILD = '''import sys, json
import pysnark.runtime as rt
rt.autoprove = False
if rt.backend_name != "nobackend": raise SystemExit("nobackend not selected: %r" % rt.backend_name)
import pysnark.fixedpoint as fx
from pysnark.fixedpoint import PrivValFxp, PubValFxp
case = json.loads(sys.stdin.read())
rt.bitlength = 40
fx.resolution = case["r"]
out = []
for a, b in case["pairs"]:
    x, y = PrivValFxp(a), PubValFxp(b)
    out.append([x.val(), y.val(), (x + y).val(), (x - y).val(), (x * y).val(), (-x).val(), (x * 3).val(), (y + 2.5).val(),
                rt.snark(lambda u: u * 2)(a), rt.snark(lambda u, v: [u + v, u - 1])(a, b)])
print("RESULT " + json.dumps(out))
'''


def nobackend_case(case):
    """The library's own `nobackend` (PYSNARK_BACKEND=nobackend: plain computing without a proof system; its modulus is a
    placeholder): values are read back as representation / 2^r there as well. Returns message or None."""
    import subprocess, sys, math
    envv = {k: v for k, v in os.environ.items() if k not in ("PYSNARK_BACKEND", "PYTHONPATH")}
    envv.update({"PYSNARK_BACKEND": "nobackend", "PYTHONPATH": os.environ.get("VERIF_REPO", "/repo") + core.COVPATH, "PYTHONHASHSEED": core.hashseed_for(case)})
    r_ = subprocess.run([sys.executable, "-c", NOBACKEND_CHILD], input=json.dumps(case), capture_output=True, text=True, env=envv, timeout=120, cwd="/")
    res = [json.loads(l[7:]) for l in r_.stdout.splitlines() if l.startswith("RESULT ")]
    if not res:
        return "computing on the nobackend backend failed: %s" % (r_.stderr.strip().splitlines() or ["?"])[-1]
    S = 1 << case["r"]
    for (a, b), got in zip(case["pairs"], res[0]):
        A, B = Fraction(a), Fraction(b)
        fl = lambda q: Fraction(math.floor(q * S), S)
        want = [A, B, A + B, A - B, fl(A * B), -A, A * 3, B + Fraction(5, 2), A * 2, [A + B, A - 1]]
        names = ["x", "y", "x + y", "x - y", "x * y", "-x", "x * 3", "y + 2.5", "snark(u*2)(x)", "snark([u+v, u-1])(x, y)"]
        for nm, g, w in zip(names, got, want):
            if (g if isinstance(g, list) else [g]) != [float(v) for v in (w if isinstance(w, list) else [w])]:
                return "nobackend, resolution %d, x = %r, y = %r: %s read back as %r, representation / 2^r is %r" % (case["r"], a, b, nm, g, [float(v) for v in w] if isinstance(w, list) else float(w))
    return None


def nobackend_shard(cases):
    stats = core.Stats()
    for case in cases:
        msg = nobackend_case(case)
        stats.case(case, True, ("nobackend-read-back",), sample_cap=2)
        if msg:
            stats.violations.append({"case": case, "msg": msg, "key": "nobackend"})
            break
    return stats


def replay(case):
    if case.get("part") == "nobackend":
        return nobackend_case(case)
    if case.get("part") == "compose":
        case = dict(case, leaves=[tuple(x) for x in case["leaves"]], nodes=[tuple(x) for x in case["nodes"]])
        return compose_case(case)[0]
    stmts = case["stmts"]
    args = []
    for s in stmts[:-1]:
        if s[0] == "in":
            args.append((s[2], s[1], s[3]))
        else:
            v = s[1]
            args.append(("f" if isinstance(v, list) else "b" if isinstance(v, bool) else "i", None, v))
    res, _ = judge(case["cfg"], stmts[-1][1], args)
    return None if res is None else res[1]


def run(ctx):
    from harness.checks.c05 import replay_known
    ctx.rule = RULE
    ctx.assumptions = ["Fraction-based reference of the documented fixed-point semantics", "recorder; representations compared modulo p"]
    cs = pairs()
    total = core.Stats()
    grids = [(3, 16, "bn128"), (0, 8, "bls12-381")] if ctx.tier == "quick" else [(3, 16, "bn128"), (0, 8, "bls12-381"), (1, 16, "curve25519"), (5, 32, "bn128")]
    for r, b, p in grids:
        total.merge_json(core.run_shards("harness.checks.c14", "grid_shard", [dict(cells=cs[i::16], r=r, b=b, p=p) for i in range(16)]).to_json())
    n = 150 if ctx.tier == "quick" else 6000
    total.merge_json(core.run_shards("harness.checks.c14", "random_shard", [dict(seed=ctx.seed * 1000 + i, n_examples=n) for i in range(16)]).to_json())
    nc = 300 if ctx.tier == "quick" else 6000
    total.merge_json(core.run_shards("harness.checks.c14", "compose_shard", [dict(seed=ctx.seed * 1000 + 500 + i, n_examples=nc) for i in range(16)]).to_json())
    nb = [{"part": "nobackend", "r": r_, "pairs": [[a / 4.0, b_ / 8.0] for a, b_ in ((2, 4), (80, -964), (-482, 801), (4000, 12), (-12002, 24001), (100001, -3), (37, 100000))]} for r_ in (3, 4, 8, 12)]
    total.merge_json(core.run_shards("harness.checks.c14", "nobackend_shard", [dict(cases=[c]) for c in nb]).to_json())
    total.extra["grids_enumerated_completely"] = [list(g) for g in grids]
    ctx.stats = total
    replay_known(ctx, replay)
