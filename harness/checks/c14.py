"""C14: fixed-point operations equal exact scaled-integer arithmetic."""
import itertools
import math
from fractions import Fraction

from hypothesis import given, strategies as st

from harness import core, ir, opgrid, refsem
from harness.recorder import REAL_FIELDS

RULE = ("(operator among + - neg * / // % divmod, six comparisons, val(), abs) x operand type pair from {fixed-point, "
        "secret int, secret bool, int, float} in both orders with at least one fixed-point operand x operand values as "
        "exact dyadics incl. negatives and fractions x resolution x bitlength. Grid part: resolution 3, all scaled "
        "values -20..20 for fixed-point/float operands, -3..3 for integers, {0,1} for booleans, every type pair: "
        "enumerated completely. Random part: Hypothesis cases over resolution 0..12, bitlength 8..32, three fields. "
        "Oracle: Fraction reference on the represented numbers (products floor(a*b/2^r) on representations, quotients "
        "floor(a*2^r/b), Python // and %, order comparisons, val() = representation/2^r); a returned value must equal "
        "it, inside the documented no-raise domain the call must return. Non-trivial = mixed operand kinds or a "
        "non-integer / negative operand; distinct by (op, types, values, resolution, bitlength).")

BIN = ["add", "sub", "mul", "truediv", "floordiv", "mod", "divmod", "lt", "le", "gt", "ge", "eq", "ne"]
UN = ["neg", "abs", "val", "pos"]
CMP = refsem.CMP
TYPES = "FIBif"


def number(t, v, r):
    """represented number of an operand"""
    if t in "Ff":
        return Fraction(v, 1 << r)
    return Fraction(int(v))


def ref(name, ts, vals, r):
    """('num', Fraction) | ('pair', q, rem) | ('bool', 0/1) | ('float', x) | RAISES"""
    S = 1 << r
    if name in UN:
        x = number(ts[0], vals[0], r)
        if name == "neg":
            return ("num", -x)
        if name == "abs":
            return ("num", abs(x))
        if name == "pos":
            return ("num", x)
        return ("float", float(x))
    a, b = number(ts[0], vals[0], r), number(ts[1], vals[1], r)
    ra, rb = a * S, b * S                  # representations (integers)
    if name == "add":
        return ("num", a + b)
    if name == "sub":
        return ("num", a - b)
    if name == "mul":
        if ts[0] in "IBi" or ts[1] in "IBi":
            return ("num", a * b)          # multiplication by integers is exact
        return ("num", Fraction(math.floor(ra * rb / S), S))
    if name == "truediv":
        if b == 0:
            return refsem.RAISES
        return ("num", Fraction(math.floor(ra * S / rb), S))
    if name in ("floordiv", "mod", "divmod"):
        if b == 0:
            return refsem.RAISES
        q = math.floor(a / b)
        rem = a - q * b
        return {"floordiv": ("num", Fraction(q)), "mod": ("num", rem), "divmod": ("pair", Fraction(q), rem)}[name]
    return ("bool", int(CMP[name](a, b)))


def in_core(name, ts, vals, r, b):
    """conservative no-raise domain (DESIGN.md section 3)"""
    S = 1 << r
    lim = 1 << b
    if name in ("neg", "pos", "val"):
        return True
    if name == "abs":
        return abs(number(ts[0], vals[0], r) * S) < lim // 2
    if "B" in ts and name not in ("add", "sub", "mul"):
        return False
    x, y = number(ts[0], vals[0], r) * S, number(ts[1], vals[1], r) * S
    if name in ("add", "sub"):
        return True
    if name == "mul":
        if ts[0] in "IBi" or ts[1] in "IBi":
            return True
        # rescaling divides by 2^r with the integer gadget: needs r < bitlength-1 and a product in range
        return r <= b - 2 and abs(x * y) < lim * S // 2
    if name in ("lt", "le", "gt", "ge"):
        return abs(x - y) + 1 < lim
    if name in ("eq", "ne"):
        return True
    if name == "divmod" and ts[0] != "F":
        return False                       # no reflected divmod on the fixed-point type
    if name in ("truediv", "floordiv", "mod", "divmod"):
        return 1 <= y < lim // 2 and abs(x) * S < lim * lim
    return False


def to_number(v, t, r):
    if t == "F":
        return Fraction(v, 1 << r)
    if t in "IBib":
        return Fraction(int(v))
    if t == "f":
        return Fraction(v)
    return None


def judge(cfg, name, args):
    ts = "".join(a[0] for a in args)
    vals = [a[2][1] if isinstance(a[2], list) else a[2] for a in args]
    r, b = cfg["r"], cfg["b"]
    prog = opgrid.single(cfg, name, args)
    m = ir.run_program(prog)
    exp = ref(name, ts, vals, r)
    n = len(args)
    if m.raised is not None:
        if len(m.vals) < n:
            return None, prog
        if exp is not refsem.RAISES and in_core(name, ts, vals, r, b):
            e = m.raised[1]
            return ("raised-in-core", "%s%r on %s (resolution %d, bitlength %d) raised %s: %s inside the documented domain" % (
                name, tuple(vals), ts, r, b, type(e).__name__, e)), prog
        return None, prog
    got, gts = opgrid.results(m, n)
    if exp is refsem.RAISES:
        return ("returned-where-reference-raises", "%s%r on %s returned %r where the reference raises" % (name, tuple(vals), ts, got)), prog
    p = m.p
    if exp[0] == "float":
        ok = len(got) == 1 and isinstance(got[0], float) and got[0] == exp[1]
        want = [exp[1]]
    else:
        want = list(exp[1:])
        nums = [to_number(g, t, r) for g, t in zip(got, gts)]
        ok = len(nums) == len(want) and all(x is not None for x in nums)
        if ok:
            for x, w in zip(nums, want):
                # compare representations modulo p
                if ((x - Fraction(w)) * (1 << r)).denominator != 1 or int((x - Fraction(w)) * (1 << r)) % p:
                    ok = False
    if not ok:
        return ("wrong-value", "%s%r on %s (resolution %d): returned %r (types %s), exact scaled-integer arithmetic gives %s" % (
            name, tuple(vals), ts, r, [str(to_number(g, t, r)) if to_number(g, t, r) is not None else g for g, t in zip(got, gts)],
            "".join(gts), [str(w) for w in want])), prog
    return None, prog


def pairs():
    out = []
    for name in BIN:
        for ta in TYPES:
            for tb in TYPES:
                if "F" in (ta, tb):
                    out.append((name, ta + tb))
    for name in UN:
        out.append((name, "F"))
    return out


def mkarg(t, v, r, i=0):
    if t == "f":
        return ("f", None, ["f", v, 1 << r])
    return (t, "priv" if i % 2 == 0 else "pub", v)


def grid_shard(cells, r, b, p):
    stats = core.Stats()
    known = core.load_known("C14")
    found = {}
    cfg = {"p": p, "b": b, "r": r, "ignore": False}
    big = list(range(-20, 21))
    small = list(range(-3, 4))
    for name, ts in cells:
        pools = [big if t in "Ff" else [0, 1] if t == "B" else small for t in ts]
        for vals in itertools.product(*pools):
            args = [mkarg(t, v, r, i) for i, (t, v) in enumerate(zip(ts, vals))]
            res, prog = judge(cfg, name, args)
            nt = len(set(ts)) > 1 or any(v < 0 or (t in "Ff" and v % (1 << r)) for t, v in zip(ts, vals))
            stats.case([name, ts, list(vals), r, b], nt, ("op:" + name, "kinds:" + ts), sample_cap=2)
            if res is not None:
                key = "%s.%s.%s" % (name, ts, res[0])
                if key in known:
                    stats.excluded[key] += 1
                elif key not in found:
                    found[key] = {"case": prog, "msg": res[1], "key": key}
    stats.violations = list(found.values())
    return stats


def random_shard(seed, n_examples):
    stats = core.Stats()
    known = core.load_known("C14")
    cells = pairs()

    @given(st.data())
    def test(data):
        draw = data.draw
        name, ts = draw(st.sampled_from(cells))
        r = draw(st.integers(0, 12))
        b = draw(st.sampled_from([8, 16, 16, 32]))
        cfg = {"p": draw(st.sampled_from(sorted(REAL_FIELDS))), "b": b, "r": r, "ignore": False}
        lim = 1 << (b - 2)
        reps = st.one_of(st.integers(-40, 40), st.integers(-lim, lim), st.integers(-(1 << r) * 4, (1 << r) * 4),
                         st.sampled_from([0, 1, -1, 1 << r, -(1 << r), (1 << r) + 1, (1 << r) - 1]))
        ints = st.one_of(st.integers(-5, 5), st.integers(-lim >> r, lim >> r))
        vals = [draw(reps) if t in "Ff" else draw(st.integers(0, 1)) if t == "B" else draw(ints) for t in ts]
        args = [mkarg(t, v, r, i) for i, (t, v) in enumerate(zip(ts, vals))]
        res, prog = judge(cfg, name, args)
        nt = len(set(ts)) > 1 or any(v < 0 or (t in "Ff" and v % (1 << r)) for t, v in zip(ts, vals))
        stats.case([name, ts, vals, r, b], nt, ("op:" + name, "kinds:" + ts, "resolution:%d" % r), sample_cap=3)
        if res is not None:
            key = "%s.%s.%s" % (name, ts, res[0])
            if key in known:
                stats.excluded[key] += 1
            else:
                raise core.Violation(prog, res[1], key)

    v = core.drive(test, seed, n_examples)
    if v is not None:
        stats.violations.append({"case": v.case, "msg": v.msg, "key": v.key})
    return stats


def replay(case):
    stmts = case["stmts"]
    args = []
    for s in stmts[:-1]:
        if s[0] == "in":
            args.append((s[2], s[1], s[3]))
        else:
            v = s[1]
            args.append(("f" if isinstance(v, list) else "b" if isinstance(v, bool) else "i", None, v))
    res, _ = judge(case["cfg"], stmts[-1][1], args)
    return None if res is None else res[1]


def run(ctx):
    from harness.checks.c05 import replay_known
    ctx.rule = RULE
    ctx.assumptions = ["Fraction-based reference of the documented fixed-point semantics", "recorder; representations compared modulo p"]
    cs = pairs()
    total = core.Stats()
    grids = [(3, 16, "bn128")] if ctx.tier == "quick" else [(3, 16, "bn128"), (0, 8, "bls12-381"), (1, 16, "curve25519"), (5, 32, "bn128")]
    for r, b, p in grids:
        total.merge_json(core.run_shards("harness.checks.c14", "grid_shard", [dict(cells=cs[i::16], r=r, b=b, p=p) for i in range(16)]).to_json())
    n = 150 if ctx.tier == "quick" else 6000
    total.merge_json(core.run_shards("harness.checks.c14", "random_shard", [dict(seed=ctx.seed * 1000 + i, n_examples=n) for i in range(16)]).to_json())
    total.extra["grids_enumerated_completely"] = [list(g) for g in grids]
    ctx.stats = total
    replay_known(ctx, replay)
