"""C19: the backend in use is the one the configuration names."""
import itertools
import json
import os
import subprocess
import sys

from hypothesis import given, strategies as st

from harness import core, backends, recorder

RULE = ("one fresh interpreter per configuration = (PYSNARK_BACKEND unset / '' / each of the 8 registry names / unknown "
        "names incl. wrong case, trailing space, prefix of a name) x (0-2 backend modules imported before the runtime, in "
        "either order) x (libsnark, qaptools, flatbuffers each loadable or not, toggled through stand-ins on "
        "PYTHONPATH / QAPTOOLS_BIN) x (plain interpreter / interactive session with get_ipython defined). Oracle: reference model of the documented three stages - a pre-imported backend is "
        "the one used; else a known name selects exactly that module or the import fails loudly (non-zero exit, traceback "
        "naming the cause); an unknown name is reported on stdout before any fallback; else the first loadable backend in "
        "registry order. In every successful case backend_name, backend.__name__, get_modulus() (and the Groth16 switch "
        "of libsnark) must be mutually consistent with the registry and the field of that name, all eight interface "
        "functions must be callable on the selected module, and its fieldinverse must invert modulo the reported order; child interpreters run under varying PYTHONHASHSEED values and all "
        "processes with the same pre-imported modules must select the same backend. Non-trivial = a backend ahead of the selected one is "
        "unloadable, or a module was pre-imported; distinct by configuration. quick samples the space, thorough "
        "enumerates it completely.")
RULE += " Extensions (seeded rounds 10-15): the first pysnark import being a library module, PYSNARK_BACKEND set / changed / removed by the program after importing a helper module."


REGISTRY = [
    ("libsnark", "pysnark.libsnark.backend", "libsnark"),
    ("libsnarkgg", "pysnark.libsnark.backendgg", "libsnark"),
    ("qaptools", "pysnark.qaptools.backend", "qaptools"),
    ("snarkjs", "pysnark.snarkjsbackend", None),
    ("zkinterface", "pysnark.zkinterface.backend", "flatbuffers"),
    ("zkifbellman", "pysnark.zkinterface.backendbellman", "flatbuffers"),
    ("zkifbulletproofs", "pysnark.zkinterface.backendbulletproofs", "flatbuffers"),
    ("nobackend", "pysnark.nobackend", None),
]
NAMES = [r[0] for r in REGISTRY]
MOD = {r[0]: r[1] for r in REGISTRY}
NEEDS = {r[0]: r[2] for r in REGISTRY}
FIELD = {"libsnark": recorder.BN128, "libsnarkgg": recorder.BN128, "qaptools": recorder.BN128, "snarkjs": recorder.BN128,
         "zkinterface": recorder.BN128, "zkifbellman": recorder.BLS12_381, "zkifbulletproofs": recorder.CURVE25519}
ENVS = [None, ""] + NAMES + ["bogus", "SNARKJS", "snarkjs ", "zkif", "libsnark2"]
FIRSTS = ["pysnark.boolean", "pysnark.fixedpoint", "pysnark.branching", "pysnark.array", "pysnark.pack", "pysnark.linalg",
          "pysnark.poseidon_hash", "pysnark.ggh_hash"]
IFACE = ["privval", "pubval", "zero", "one", "fieldinverse", "get_modulus", "add_constraint", "prove"]

CHILD = '''import sys, json, importlib
if %r:
    import builtins
    builtins.get_ipython = lambda: None       # what an IPython / Jupyter session provides
pre = %r
for m in pre:
    importlib.import_module(m)
OBJ = %r
if OBJ:
    # a backend that is an OBJECT put into sys.modules (the documented way to plug in a recorder), empty so far
    class _Rec:
        __name__ = "pysnark.nobackend"
        def __init__(self): self.cons = []
        def __len__(self): return len(self.cons) if OBJ == "falsy" else 1 + len(self.cons)
        def privval(self, v): return 0
        def pubval(self, v): return 0
        def zero(self): return 0
        def one(self): return 0
        def fieldinverse(self, v): return 0
        def get_modulus(self): return 10000
        def add_constraint(self, a, b, c): self.cons.append((a, b, c))
        def prove(self): pass
    sys.modules["pysnark.nobackend"] = _Rec()
LATE = %r
if LATE:
    # the program imports a helper module of the package that does not need the runtime, THEN decides on the backend
    # (sets, changes or removes PYSNARK_BACKEND in os.environ), then imports the runtime: the runtime reads the variable then
    import os
    importlib.import_module(LATE[0])
    if LATE[1] is None:
        os.environ.pop("PYSNARK_BACKEND", None)
    else:
        os.environ["PYSNARK_BACKEND"] = LATE[1]
FIRST = %r
if FIRST:
    # the first pysnark module the program imports is a library module (it imports the runtime itself): the selection is the same
    try:
        importlib.import_module(FIRST)
    except NotImplementedError:
        pass          # e.g. a hash module without parameters for the selected backend: raised after the selection was made
import pysnark.runtime as rt
b = rt.backend
if OBJ:
    print("RESULT " + json.dumps({"object_in_use": b is sys.modules["pysnark.nobackend"], "name": rt.backend_name}))
    rt.autoprove = False
    sys.exit(0)
out = {"name": rt.backend_name, "module": getattr(b, "__name__", None)}
try:
    out["modulus"] = b.get_modulus()
except Exception as e:
    out["modulus"] = "error: %%s" %% e
out["iface"] = {f: callable(getattr(b, f, None)) for f in %r}
# the interface functions work in the reported field: inverses, and a product constraint on fresh values
try:
    m = out["modulus"]
    if isinstance(m, int) and out["name"] != "nobackend":
        out["inverse_ok"] = all((b.fieldinverse(x) * x) %% m == 1 for x in (2, 3, 12345, m - 1, (m + 1) // 2))
        one = b.one(); z = b.zero()
        x = b.privval(3); y = b.pubval(5)
        lc = x * 2 + y - one * 11 + z
        out["algebra_ok"] = True
except Exception as e:
    out["inverse_ok"] = "error: %%s: %%s" %% (type(e).__name__, e)
ls = sys.modules.get("pysnark.libsnark.backend")
out["use_groth"] = getattr(ls, "use_groth", None) if ls is not None else None
rt.autoprove = False
print("RESULT " + json.dumps(out))
'''


def loadable(name, load):
    need = NEEDS[name]
    return need is None or load[need] is True       # "noexec": the tools are present but cannot be executed -> not loadable


def model(cfg):
    """('fail',) | ('select', acceptable names, unknown_reported)"""
    env, pre, load = cfg["env"], cfg["pre"], cfg["load"]
    if pre:
        derived = [n for n in pre if n in ("zkifbellman", "zkifbulletproofs")]
        if len(derived) > 1:
            return ("select", [derived[-1]], False)
        return ("select", list(pre), False)
    if env is not None and env in NAMES:
        if loadable(env, load):
            return ("select", [env], False)
        return ("fail",)
    first = [n for n in NAMES if loadable(n, load)][0]
    if cfg.get("interactive"):
        # inside IPython the code falls back to the dummy backend; the property only fixes what happens when a known
        # backend was named or pre-imported, so either fallback is accepted here
        return ("select", sorted({first, "nobackend"}), env is not None)
    return ("select", [first], env is not None)


def run_case(cfg):
    """returns (message or None, info)"""
    env, pre, load = cfg["env"], cfg["pre"], cfg["load"]
    paths = [backends.REPO]
    if load["flatbuffers"]:
        paths.append(os.path.join(backends.SHIMS, "fb"))
    if load["libsnark"]:
        paths.append(os.path.join(backends.SHIMS, "libsnark_stub"))
    envv = {k: v for k, v in os.environ.items() if k not in ("PYSNARK_BACKEND", "QAPTOOLS_BIN", "PYTHONPATH")}
    envv.update({"PYTHONPATH": os.pathsep.join(paths) + core.COVPATH, "PYTHONDONTWRITEBYTECODE": "1", "PYTHONHASHSEED": str(cfg["hashseed"]) if "hashseed" in cfg else core.hashseed_for(cfg),
                 "QAPTOOLS_BIN": (os.path.join(backends.SHIMS, "qapbin_noexec") if load["qaptools"] == "noexec" else
                                  os.path.join(backends.SHIMS, "qapbin")) if load["qaptools"] else "/nonexistent-qaptools-dir"})
    if cfg.get("late"):
        if cfg.get("env0") is not None:
            envv["PYSNARK_BACKEND"] = cfg["env0"]      # what the shell had set; the program overrides it before importing the runtime
    elif env is not None:
        envv["PYSNARK_BACKEND"] = env
    import tempfile, shutil
    tmp = tempfile.mkdtemp(prefix="verif-c19-")
    try:
        # interpreter flags that concern Python's OWN environment variables (-E, -I: PYTHONPATH and friends are ignored, so the
        # paths are put on sys.path by the program itself; -s, -O, -B) say nothing about PYSNARK_BACKEND
        pyflags = list(cfg.get("pyflags") or [])
        prefix = ("import sys; sys.path[:0] = %r\n" % (paths,)) if pyflags else ""
        r = subprocess.run([sys.executable] + pyflags + ["-c", prefix + CHILD % (bool(cfg.get("interactive")), [MOD[n] for n in pre], cfg.get("object"), [cfg["late"], cfg["env"]] if cfg.get("late") else None, cfg.get("first"), IFACE)], cwd=tmp, env=envv,
                           capture_output=True, text=True, timeout=120, start_new_session=True)
    finally:
        shutil.rmtree(tmp, ignore_errors=True)
    info = {}
    exp = model(cfg)
    res = None
    for ln in r.stdout.splitlines():
        if ln.startswith("RESULT "):
            res = json.loads(ln[7:])
    desc = "PYSNARK_BACKEND=%r, pre-imported %r, loadable %r%s%s" % (env, pre, sorted(k for k, v in load.items() if v is True),
                                                                    ", qaptools executables present but not executable" if load["qaptools"] == "noexec" else "",
                                                                  (", interactive session (get_ipython defined)" if cfg.get("interactive") else "") +
                                                                  (", first pysnark import is %s" % cfg["first"] if cfg.get("first") else "") +
                                                                  (", interpreter flags %s" % " ".join(cfg["pyflags"]) if cfg.get("pyflags") else "") +
                                                                  (", set in os.environ after importing %s (the shell had %r)" % (cfg["late"], cfg.get("env0")) if cfg.get("late") else ""))
    if cfg.get("object"):
        if res is None:
            return "%s, backend object (%s) in sys.modules: the runtime failed to start: %s" % (desc, cfg["object"], (r.stderr.strip().splitlines() or ["?"])[-1]), info
        if not res.get("object_in_use") or res.get("name") != "nobackend":
            return "%s: a backend OBJECT was put into sys.modules['pysnark.nobackend'] before the import (%s while empty), yet backend %r is in use" % (
                desc, cfg["object"], res.get("name")), info
        info["selected"] = "nobackend"
        return None, info
    if exp[0] == "fail":
        if res is not None or r.returncode == 0:
            return "%s: the named backend cannot be loaded, yet the run went on with backend %r" % (desc, res and res["name"]), info
        if "Traceback" not in r.stderr:
            return "%s: the failure to load the named backend was not reported" % desc, info
        return None, info
    if res is None:
        return "%s: the runtime failed to start: %s" % (desc, (r.stderr.strip().splitlines() or ["?"])[-1]), info
    name = res["name"]
    if name not in exp[1]:
        return "%s: backend %r (%s) is in use, expected %s" % (desc, name, res["module"], " or ".join(exp[1])), info
    # consistency of the reported name with the module and field in effect
    if res["module"] != MOD[name]:
        return "%s: backend_name is %r but constraints go to module %s" % (desc, name, res["module"]), info
    if name in FIELD and res["modulus"] != FIELD[name]:
        return "%s: backend_name is %r but the field in effect has order %s" % (desc, name, res["modulus"]), info
    if name in ("libsnark", "libsnarkgg") and res["use_groth"] != (name == "libsnarkgg"):
        return "%s: backend_name is %r but the Groth16 switch is %r" % (desc, name, res["use_groth"]), info
    if name != "nobackend" and isinstance(res.get("modulus"), int) and not (name in ("libsnark", "libsnarkgg")) and res.get("inverse_ok") is not True:
        return "%s: backend %r reports field order %s but its fieldinverse does not invert in that field (%r)" % (desc, name, res["modulus"], res.get("inverse_ok")), info
    missing = [f for f, ok in res["iface"].items() if not ok]
    if missing:
        return "%s: selected backend %s lacks interface functions %r" % (desc, name, missing), info
    if exp[2]:
        out = r.stdout
        pos = out.find("unknown backend")
        if pos < 0:
            return "%s: the unknown backend name was not reported on stdout" % desc, info
        err = out.find("*** Error loading backend")
        if 0 <= err < pos:
            return "%s: fallback started before the unknown name was reported" % desc, info
    elif "unknown backend" in r.stdout:
        return "%s: an 'unknown backend' report although none was named" % desc, info
    info["selected"] = name
    return None, info


def nontrivial(cfg, info):
    if cfg["pre"] or (cfg.get("interactive") and cfg["env"] in NAMES):
        return True
    sel = info.get("selected")
    if sel is None:
        return model(cfg)[0] == "fail"
    return any(not loadable(n, cfg["load"]) for n in NAMES[:NAMES.index(sel)])


def all_configs():
    out = []
    loads = [dict(zip(["libsnark", "qaptools", "flatbuffers"], bits)) for bits in itertools.product([False, True], repeat=3)]
    pres = [[]] + [[n] for n in NAMES] + [[a, b] for a in NAMES for b in NAMES if a != b]
    for env in ENVS:
        for pre in pres:
            for load in loads:
                derived = [n for n in pre if n in ("zkifbellman", "zkifbulletproofs")]
                # (two derived modules of one base, in either import order: the one imported last set the field last and is the
                # backend in effect - the name / module / field consistency below decides)
                if not pre and not load["libsnark"] and not load["qaptools"]:
                    out.append({"env": env, "pre": pre, "load": dict(load, qaptools="noexec")})
                if all(loadable(n, load) for n in pre):
                    out.append({"env": env, "pre": pre, "load": load})
                    if len(pre) <= 1:
                        out.append({"env": env, "pre": pre, "load": load, "interactive": True})
    # a library module is the first thing imported (nothing pre-imported): same selection as with the runtime first
    k = 0
    for env in ENVS:
        for load in loads:
            for first in FIRSTS:
                k += 1
                if k % 4 == 0 or first == "pysnark.poseidon_hash" and load["flatbuffers"]:
                    out.append({"env": env, "pre": [], "load": load, "first": first})
    k = 0
    for env in ENVS:
        for load in loads:
            for flags in (["-E"], ["-I"], ["-s"], ["-O"], ["-B", "-E"]):
                k += 1
                if k % 5 == 0:
                    out.append({"env": env, "pre": [], "load": load, "pyflags": flags})
    k = 0
    for env in ENVS:
        for env0 in (None, "nobackend", "zkinterface", "bogus"):
            for late in ("pysnark", "pysnark.poseidon_constants", "pysnark.gmpy"):
                k += 1
                if env0 != env and k % 3 == 0:
                    out.append({"env": env, "env0": env0, "late": late, "pre": [], "load": loads[2 + 4 * (k % 2)]})
    for env in (None, "snarkjs", "bogus", "nobackend"):
        for kind in ("falsy", "truthy"):
            out.append({"env": env, "pre": [], "load": loads[2], "object": kind})
    return out


def shard(cfgs):
    stats = core.Stats()
    known = core.load_known("C19")
    found = {}
    by_pre = {}
    for cfg in cfgs:
        try:
            msg, info = run_case(cfg)
        except subprocess.TimeoutExpired:
            stats.inconclusive["timeout"] += 1
            continue
        if not msg and cfg["pre"] and info.get("selected"):
            # stage 1 looks at nothing but the pre-imported modules: every process with the same ones (whatever the
            # environment variable, the loadable backends or the string-hash seed) must end up with the same backend
            k_ = json.dumps(cfg["pre"])
            if k_ in by_pre and by_pre[k_][0] != info["selected"]:
                msg = ("pre-imported %r: backend %r is in use here (PYTHONHASHSEED=%s) but %r in another process with the same "
                       "pre-imported modules (PYTHONHASHSEED=%s): the choice is not a function of the configuration" % (
                           cfg["pre"], info["selected"], core.hashseed_for(cfg), by_pre[k_][0], core.hashseed_for(by_pre[k_][1])))
                cfg = {"pair": [by_pre[k_][1], cfg], "env": cfg["env"], "pre": cfg["pre"], "load": cfg["load"]}
            else:
                by_pre.setdefault(k_, (info["selected"], cfg))
        nt = nontrivial(cfg, info)
        labels = ["env:" + ("unset" if cfg["env"] is None else "known" if cfg["env"] in NAMES else "unknown"), "pre:%d" % len(cfg["pre"])]
        stats.case(cfg, nt, labels, sample_cap=2)
        if msg:
            key = bucket(cfg, msg)
            if key in known:
                stats.excluded[key] += 1
            elif key not in found:
                found[key] = {"case": cfg, "msg": msg, "key": key}
    stats.violations = list(found.values())
    return stats


def bucket(cfg, msg):
    if cfg["pre"] and ("but the field in effect" in msg or "but the Groth16 switch" in msg or "but constraints go to" in msg or "is in use, expected" in msg):
        return "preimport-derived-module-misnamed:" + "+".join(sorted(set(cfg["pre"])))
    return "selection:" + msg.split(":", 1)[1].strip()[:40].replace(" ", "_")


def sample_shard(seed, n_examples):
    stats = core.Stats()
    known = core.load_known("C19")
    cfgs = all_configs()

    @given(st.data())
    def test(data):
        cfg = data.draw(st.sampled_from(cfgs))
        msg, info = run_case(cfg)
        nt = nontrivial(cfg, info)
        stats.case(cfg, nt, ["env:" + ("unset" if cfg["env"] is None else "known" if cfg["env"] in NAMES else "unknown"), "pre:%d" % len(cfg["pre"])], sample_cap=2)
        if msg:
            key = bucket(cfg, msg)
            if key in known:
                stats.excluded[key] += 1
            else:
                raise core.Violation(cfg, msg, key)
    v = core.drive(test, seed, n_examples, shrink=False)
    if v is not None:
        stats.violations.append({"case": v.case, "msg": v.msg, "key": v.key})
    return stats


def replay(case):
    if "pair" in case:
        (m1, i1), (m2, i2) = run_case(case["pair"][0]), run_case(case["pair"][1])
        if m1 or m2:
            return m1 or m2
        if i1.get("selected") != i2.get("selected"):
            return "pre-imported %r: backend %r in one process, %r in another" % (case["pre"], i1.get("selected"), i2.get("selected"))
        return None
    return run_case(case)[0]


def run(ctx):
    from harness.checks.c05 import replay_known
    ctx.rule = RULE
    ctx.assumptions = ["loadability is toggled through stand-ins (import-only libsnark stub, failing qaptools stubs, flatbuffers stand-in)",
                       "an interactive session is modelled by defining builtins.get_ipython before the runtime is imported (0-1 pre-imported modules)", "registry order is the documented auto-detection order"]
    # the whole configuration space is small enough to enumerate in both tiers (about 20 s on 16 cores)
    cfgs = all_configs()
    # configurations with the same pre-imported modules go to one shard (they are compared with each other)
    groups = {}
    for c in cfgs:
        groups.setdefault(json.dumps(c["pre"]), []).append(c)
    buckets = [[] for _ in range(16)]
    for g in sorted(groups.values(), key=len, reverse=True):
        min(buckets, key=len).extend(g)
    total = core.run_shards("harness.checks.c19", "shard", [dict(cfgs=b) for b in buckets])
    ctx.exhaustive = True
    total.extra["space_size"] = len(all_configs())
    ctx.stats = total
    replay_known(ctx, replay)
