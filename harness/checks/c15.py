"""C15: secret-index array access reads and writes exactly one element."""
import copy

from hypothesis import given, strategies as st

from harness import core, env, r1cs, ir

RULE = ("(a) histories: array shape (1-D length 1-6, 2-D up to 4x4), contents mixing plain constants and secrets, then "
        "a generated sequence of reads/writes with secret or public indices inside and outside the bounds, compared "
        "step by step with a Python list-of-lists model (values of every element after every step; IndexError exactly "
        "when the model index is out of range; chained assignment on a returned row refused; a row read at a secret index is a value: Array(row) copies and rows "
        "stored into other matrices do not alias it); emitted constraints "
        "satisfied and reported values equal to wire expressions at the end; the same history re-run with other in-range "
        "secret index values must give the identical canonical trace; deterministic long arrays (31 ... 129, thorough 257 "
        "elements; 65x2, 2x65 matrices) accessed at the first, a middle and the last position. (a2) arrays of 3 and 4 dimensions: tuple indices of every length mixing secret and plain positions in any order, reads (element or sub-array) "
        "and writes (element or sub-array) against nested lists, out-of-range positions, trace equality across in-range index values. (b) small-field search (p=67): for every length "
        "1-4 and every position, circuit of a read (and of a write) with the index wire freed: for EVERY index value in "
        "F_p the witness space is enumerated completely - outside [0,len) there must be no satisfying assignment, inside "
        "the read result (every element after a write) must be uniquely the model's. Non-trivial = secret index, length "
        ">= 2 and a write followed by a read of another position (a); every instance of (b); distinct by case digest.")
RULE += " Extensions (seeded rounds 10-15): arrays of 3 and 4 dimensions with tuple indices of every length, outside positions on arrays of 1-200 (thorough 1023) elements with errors ignored."


def mk_array(ns, shape, contents, secret_mask, same_rows=(), ctor=None):
    """same_rows: pairs (i, j), j < i: row i is the very row object of row j (Array([row] * n)).
    ctor: the 1-D array of plain numbers is built from something other than a list - a range object, a tuple, a generator"""
    A = ns.ar.Array
    if ctor and len(shape) == 1:
        if ctor[0] == "range":
            return A(range(ctor[1], ctor[1] + ctor[2] * shape[0], ctor[2]))
        if ctor[0] == "tuple":
            return A(tuple(contents))
        return A(v for v in contents)

    def el(v, s):
        if s == "F":
            return ns.fx.PrivValFxp(v / 2.0)          # a fixed-point element representing v/2
        return ns.rt.PrivVal(v) if s else v
    if len(shape) == 1:
        return A([el(v, s) for v, s in zip(contents, secret_mask)])
    rows = [A([el(v, s) for v, s in zip(row, mrow)]) for row, mrow in zip(contents, secret_mask)]
    for i, j in same_rows:
        rows[i] = rows[j]
    return A(rows)


def plain(ns, x):
    if isinstance(x, ns.ar.Array):
        return [plain(ns, y) for y in x.arr]
    if isinstance(x, ns.rt.LinComb):
        return x.value
    if isinstance(x, ns.fx.LinCombFxp):
        from fractions import Fraction
        return Fraction(x.lc.value, 1 << ns.fx.resolution)      # the represented number (== an int when it is whole)
    if isinstance(x, ns.bo.LinCombBool):
        return x.lc.value
    return x


def run_history(case, override_idx=None):
    """executes the history; returns (message or None, info). override_idx: dict step -> index tuple"""
    has_fxp = len(case["shape"]) == 1 and "F" in case["mask"]
    ns = env.reset(ir.resolve_p(case["p"]), case["b"], 2 if has_fxp else 0)
    rec = ns.rec
    shape = case["shape"]
    model = copy.deepcopy(case["contents"])
    if has_fxp:
        from fractions import Fraction
        model = [Fraction(v, 2) if s_ == "F" else v for v, s_ in zip(model, case["mask"])]
    arr = mk_array(ns, shape, case["contents"], case["mask"], case.get("same_rows", ()), case.get("ctor"))
    info = {"secret_reads": 0, "write_then_other_read": False, "last_write": None, "oob": 0}
    kept = []      # (step, row read at a secret index, its values at that moment): a row that was read is a value
    for step, op in enumerate(case["ops"]):
        kind, idx, sec, wval, wsec = op
        # (kept rows are looked at only at the very end: looking earlier could itself fix their content)
        if kind == "rowkeep":
            if len(shape) != 2 or not 0 <= idx[0] < shape[0]:
                continue
            kept.append((step, arr[ns.rt.PrivVal(idx[0])], list(model[idx[0]])))
            info["rowops"] = info.get("rowops", 0) + 1
            continue
        if kind in ("rowcopy", "rowstore"):
            if len(shape) != 2 or not 0 <= idx[0] < shape[0]:
                continue
            i, j = idx[0], idx[1] % shape[1]
            row = arr[ns.rt.PrivVal(i)]
            before_row = list(model[i])
            if kind == "rowcopy":
                # c = Array(row) is a copy: writing to it changes neither the row read nor the matrix
                c = ns.ar.Array(row)
                c[ns.rt.PrivVal(j) if sec[1] else j] = ns.rt.PrivVal(wval) if wsec else wval
                want_c = list(before_row)
                want_c[j] = wval
                if plain(ns, c) != want_c:
                    return "step %d: copy of row %d after writing position %d is %r, model %r" % (step, i, j, plain(ns, c), want_c), info
            else:
                # the row stored in several rows of another matrix: writing one element changes one row only
                d = ns.ar.Array([ns.ar.Array([0] * shape[1]) for _ in range(3)])
                d[0] = row
                d[2] = row
                d[(0, ns.rt.PrivVal(j)) if sec[1] else (0, j)] = ns.rt.PrivVal(wval) if wsec else wval
                want_d = [list(before_row), [0] * shape[1], list(before_row)]
                want_d[0][j] = wval
                if plain(ns, d) != want_d:
                    return "step %d: matrix holding row %d twice after writing [0,%d] is %r, model %r" % (step, i, j, plain(ns, d), want_d), info
            if plain(ns, row) != before_row:
                return "step %d (%s): the row read at secret index %d changed to %r after a write to its copy (model %r)" % (step, kind, i, plain(ns, row), before_row), info
            if plain(ns, arr) != model:
                return "step %d (%s): the matrix changed to %r after a write to a copy of its row (model %r)" % (step, kind, plain(ns, arr), model), info
            info["rowops"] = info.get("rowops", 0) + 1
            continue
        if override_idx and step in override_idx:
            idx = override_idx[step]
        api_idx = tuple(ns.rt.PrivVal(i) if s else i for i, s in zip(idx, sec))
        key = api_idx[0] if len(api_idx) == 1 else api_idx
        # model: secret indices must be in range; public ints follow Python list semantics
        def model_ok():
            dims = shape
            for d, (i, s) in enumerate(zip(idx, sec)):
                n = dims[d]
                if s:
                    if not 0 <= i < n:
                        return False
                elif not -n <= i < n:
                    return False
            return True
        ok = model_ok()
        try:
            if kind == "r":
                got = arr[key]
                if not ok:
                    return "read at %r (secret=%r) returned %r although the index is outside the array of shape %r" % (idx, sec, plain(ns, got), shape), info
                want = model
                for i in idx:
                    want = want[i]
                if plain(ns, got) != want:
                    return "step %d: read at %r returned %r, model has %r" % (step, idx, plain(ns, got), want), info
                if any(sec):
                    info["secret_reads"] += 1
                    if info["last_write"] is not None and tuple(i % n for i, n in zip(idx, shape)) != info["last_write"]:
                        info["write_then_other_read"] = True
                if len(idx) < len(shape) and any(sec):
                    # a returned row must refuse item assignment
                    try:
                        got[0] = 1
                        return "step %d: chained assignment on a row returned for a secret index was accepted" % step, info
                    except TypeError:
                        pass
            else:
                w = ns.rt.PrivVal(wval) if wsec else wval
                if len(idx) < len(shape):
                    w = ns.ar.Array([ns.rt.PrivVal(wval + k) if wsec else wval + k for k in range(shape[1])])
                arr[key] = w
                if not ok:
                    return "write at %r (secret=%r) accepted although the index is outside the array of shape %r" % (idx, sec, shape), info
                if len(idx) < len(shape):
                    model[idx[0]] = [wval + k for k in range(shape[1])]
                elif len(idx) == 1:
                    model[idx[0]] = wval
                else:
                    model[idx[0]][idx[1]] = wval
                if any(sec):
                    info["last_write"] = tuple(i % n for i, n in zip(idx, shape))
        except IndexError:
            if ok:
                return "step %d: %s at in-range index %r raised IndexError" % (step, kind, idx), info
            info["oob"] += 1
            # an out-of-range access must leave the array as it was
        if plain(ns, arr) != model:
            return "step %d (%s at %r): array is %r, model is %r" % (step, kind, idx, plain(ns, arr), model), info
    for kstep, krow, ksnap in kept:
        if plain(ns, krow) != ksnap:
            return "the row read at step %d was %r then and is %r at the end (later writes to the matrix show through)" % (kstep, ksnap, plain(ns, krow)), info
    bad = r1cs.evaluate(rec.snapshot())
    if bad:
        return "constraint #%d violated by the recorded witness" % bad[0], info
    for path, leaf in ir.secret_leaves(ns, arr, "arr"):
        if (leaf.value - r1cs.lc_value(leaf.lc.d, rec.vals, rec.P)) % rec.P:
            return "%s reports %d but its wire expression evaluates differently" % (path, leaf.value), info
    info["canon"] = r1cs.canonical(rec.snapshot(), [l.lc.d for _, l in ir.secret_leaves(ns, arr, "arr")])
    return None, info


def draw_history(draw):
    two = draw(st.booleans())
    shape = [draw(st.integers(1, 4)), draw(st.integers(1, 4))] if two else [draw(st.integers(1, 6))]
    vals = st.integers(-5, 9)
    if two:
        contents = [[draw(vals) for _ in range(shape[1])] for _ in range(shape[0])]
        mask = [[draw(st.booleans()) for _ in range(shape[1])] for _ in range(shape[0])]
    else:
        contents = [draw(vals) for _ in range(shape[0])]
        mask = [draw(st.booleans()) for _ in range(shape[0])]
        ctor = None
        if draw(st.integers(0, 4)) == 0:
            # a table of plain numbers built from a range / tuple / generator (Array(range(n)) is the usual identity permutation)
            kind_ = draw(st.sampled_from(["range", "range", "tuple", "gen"]))
            mask = [False] * shape[0]
            if kind_ == "range":
                a0, stp = draw(st.integers(-2, 3)), draw(st.sampled_from([1, 1, 2, -1, 10]))
                contents = list(range(a0, a0 + stp * shape[0], stp))
                ctor = ["range", a0, stp]
            else:
                ctor = [kind_]
        elif draw(st.integers(0, 3)) == 0:
            # integer and fixed-point elements side by side (e.g. after a constant-index write of a fixed-point value)
            mask = [draw(st.sampled_from([True, False, "F"])) for _ in range(shape[0])]
    same_rows = []
    if two and shape[0] >= 2 and draw(st.integers(0, 3)) == 0:
        # the usual initialisation Array([row] * n), or one row object used twice: a write at a SECRET row index changes one
        # element of one row (writes at a constant row index go to the shared object as in plain Python and are left out)
        if draw(st.booleans()):
            same_rows = [[i, 0] for i in range(1, shape[0])]
        else:
            i = draw(st.integers(1, shape[0] - 1))
            same_rows = [[i, draw(st.integers(0, i - 1))]]
        for i, j in same_rows:
            contents[i] = list(contents[j])
            mask[i] = list(mask[j])
    ops = []
    for _ in range(draw(st.integers(1, 7))):
        kind = draw(st.sampled_from(["r", "r", "w", "r", "w", "rowcopy", "rowstore", "rowkeep", "w"] if two and not same_rows else ["r", "r", "w"]))
        nidx = (2 if kind.startswith("row") else draw(st.integers(1, 2))) if two else 1
        idx, sec = [], []
        for d in range(nidx):
            n = shape[d]
            i = draw(st.one_of(*([st.integers(0, n - 1)] * 9 + [st.sampled_from([-1, n, n + 1, -n, -n - 1])])))
            idx.append(i)
            sec.append(draw(st.sampled_from([True, True, False])))
        if same_rows and kind == "w":
            sec[0] = True
        ops.append([kind, idx, sec, draw(vals), draw(st.booleans())])
    return {"part": "history", "p": draw(st.sampled_from(["bn128", "bls12-381", "curve25519", 257])), "b": draw(st.sampled_from([3, 8, 16])),
            "shape": shape, "contents": contents, "mask": mask, "ops": ops, "same_rows": same_rows, "ctor": ctor if not two else None}


def history_case(case, draw=None):
    msg, info = run_history(case)
    if msg:
        return msg, info
    # same history, other in-range secret index values: identical trace
    if draw is not None or case.get("alt"):
        alt = case.get("alt")
        if alt is None:
            alt = {}
            for step, op in enumerate(case["ops"]):
                kind, idx, sec, _, _ = op
                ok = all((0 <= i < n) if s else (-n <= i < n) for i, s, n in zip(idx, sec, case["shape"]))
                if ok and any(sec):
                    alt[str(step)] = [draw(st.integers(0, n - 1)) if s else i for i, s, n in zip(idx, sec, case["shape"])]
            case["alt"] = alt
        if alt:
            # only index values change; the model is re-derived, so compare traces only
            ns = env.bind()
            c2 = copy.deepcopy(case)
            for step, idx in alt.items():
                c2["ops"][int(step)][1] = idx
            msg2, info2 = run_history(c2)
            if msg2:
                return "with other in-range index values: " + msg2, info
            if info2.get("canon") != info.get("canon"):
                return "canonical trace differs between index values %r and %r" % (
                    [o[1] for o in case["ops"]], [o[1] for o in c2["ops"]]), info
            info["trace_compared"] = True
    return None, info


# ---- arrays of three and four dimensions, tuple indices of every length mixing secret and plain positions in any order

def _nd_build(ns, contents, mask):
    if isinstance(contents, list):
        return ns.ar.Array([_nd_build(ns, c, m) for c, m in zip(contents, mask)])
    return ns.rt.PrivVal(contents) if mask else contents


def _nd_fill(shape, base):
    if not shape:
        return base
    return [_nd_fill(shape[1:], base + k * (7 if len(shape) > 1 else 1)) for k in range(shape[0])]


def _nd_const(shape, v):
    if not shape:
        return v
    return [_nd_const(shape[1:], v) for _ in range(shape[0])]


def run_nd(case):
    ns = env.reset(ir.resolve_p(case["p"]), case["b"], 0)
    rec = ns.rec
    shape = case["shape"]
    model = copy.deepcopy(case["contents"])
    arr = _nd_build(ns, case["contents"], case["mask"])
    info = {"secret_reads": 0, "partial": 0, "oob": 0, "write_then_other_read": False, "last_write": None}
    for step, (kind, idx, sec, wval, wsec) in enumerate(case["ops"]):
        if step in case.get("share", ()):
            # ONE secret object used for several dimensions (a diagonal access a[i, i])
            objs = {}
            api_idx = tuple((objs[i] if i in objs else objs.setdefault(i, ns.rt.PrivVal(i))) if s_ else i for i, s_ in zip(idx, sec))
        else:
            api_idx = tuple(ns.rt.PrivVal(i) if s_ else i for i, s_ in zip(idx, sec))
        key = api_idx[0] if len(api_idx) == 1 and step % 2 else api_idx
        ok = all((0 <= i < n) if s_ else (-n <= i < n) for i, s_, n in zip(idx, sec, shape))
        what = "%s at %r (secret positions %r) of an array of shape %r" % ("read" if kind == "r" else "write", idx, sec, shape)
        try:
            if kind == "r":
                got = arr[key]
                if not ok:
                    return "%s returned %r although the index is outside the array" % (what, plain(ns, got)), info
                want = model
                for i in idx:
                    want = want[i]
                if plain(ns, got) != want:
                    return "step %d: %s returned %r, model has %r" % (step, what, plain(ns, got), want), info
                if any(sec):
                    info["secret_reads"] += 1
                    if info["last_write"] is not None and info["last_write"] != tuple(i % n for i, n in zip(idx, shape)):
                        info["write_then_other_read"] = True
                if len(idx) < len(shape):
                    info["partial"] += 1
            else:
                rest = shape[len(idx):]
                sub = _nd_fill(rest, wval)
                w = _nd_build(ns, sub, _nd_const(rest, bool(wsec)))
                arr[key] = w
                if not ok:
                    return "%s was accepted although the index is outside the array" % what, info
                tgt = model
                for i in idx[:-1]:
                    tgt = tgt[i]
                tgt[idx[-1]] = copy.deepcopy(sub)
                if any(sec):
                    info["last_write"] = tuple(i % n for i, n in zip(idx, shape))
                if len(idx) < len(shape):
                    info["partial"] += 1
        except IndexError:
            if ok:
                return "step %d: %s raised IndexError" % (step, what), info
            info["oob"] += 1
        if plain(ns, arr) != model:
            return "step %d: after the %s the array is %r, model is %r" % (step, what, plain(ns, arr), model), info
    bad = r1cs.evaluate(rec.snapshot())
    if bad:
        return "constraint #%d violated by the recorded witness" % bad[0], info
    for path, leaf in ir.secret_leaves(ns, arr, "arr"):
        if (leaf.value - r1cs.lc_value(leaf.lc.d, rec.vals, rec.P)) % rec.P:
            return "%s reports %d but its wire expression evaluates differently" % (path, leaf.value), info
    info["canon"] = r1cs.canonical(rec.snapshot(), [l.lc.d for _, l in ir.secret_leaves(ns, arr, "arr")])
    return None, info


def draw_nd(draw):
    depth = draw(st.sampled_from([3, 3, 3, 4]))
    shape = [draw(st.integers(1, 3 if depth == 3 else 2)) for _ in range(depth)]

    def gen(sh, what):
        if not sh:
            return draw(what)
        return [gen(sh[1:], what) for _ in range(sh[0])]
    contents = gen(shape, st.integers(-5, 9))
    allsec = draw(st.sampled_from([None, None, True, False]))
    mask = gen(shape, st.booleans() if allsec is None else st.just(allsec))
    ops = []
    share = []
    for _ in range(draw(st.integers(1, 4))):
        kind = draw(st.sampled_from(["r", "r", "w"]))
        nidx = draw(st.integers(1, depth))
        idx, sec = [], []
        if draw(st.integers(0, 4)) == 0:
            # diagonal access through one secret index object: in range for some dimensions and not for others when the
            # dimensions differ
            nidx = max(nidx, 2)
            v = draw(st.integers(0, max(shape[:nidx])))
            idx, sec = [v] * nidx, [True] * nidx
            share.append(len(ops))
        for d in range(nidx - len(idx)):
            n = shape[d]
            idx.append(draw(st.one_of(*([st.integers(0, n - 1)] * 12 + [st.sampled_from([-1, n, n + 1, -n, -n - 1])]))))
            sec.append(draw(st.sampled_from([True, True, False])))
        ops.append([kind, idx, sec, draw(st.integers(-5, 9)), draw(st.booleans())])
    return {"part": "nd", "p": draw(st.sampled_from(["bn128", "curve25519", 257])), "b": draw(st.sampled_from([4, 8, 16])),
            "shape": shape, "contents": contents, "mask": mask, "ops": ops, "share": share}


def nd_case(case, draw=None):
    msg, info = run_nd(case)
    if msg:
        return msg, info
    alt = case.get("alt")
    if alt is None and draw is not None:
        alt = {}
        for step, (kind, idx, sec, _, _) in enumerate(case["ops"]):
            if any(sec) and all((0 <= i < n) if s_ else (-n <= i < n) for i, s_, n in zip(idx, sec, case["shape"])):
                if step in case.get("share", ()):
                    alt[str(step)] = [draw(st.integers(0, min(case["shape"][:len(idx)]) - 1))] * len(idx)     # still one object
                else:
                    alt[str(step)] = [draw(st.integers(0, n - 1)) if s_ else i for i, s_, n in zip(idx, sec, case["shape"])]
        case["alt"] = alt
    if alt:
        c2 = copy.deepcopy(case)
        for step, idx in alt.items():
            c2["ops"][int(step)][1] = idx
        msg2, info2 = run_nd(c2)
        if msg2:
            return "with other in-range index values: " + msg2, info
        if info2.get("canon") != info.get("canon"):
            return "canonical trace differs between index values %r and %r" % ([o[1] for o in case["ops"]], [o[1] for o in c2["ops"]]), info
        info["trace_compared"] = True
    return None, info


def nd_shard(seed, n_examples):
    stats = core.Stats()

    @given(st.data())
    def test(data):
        case = draw_nd(data.draw)
        msg, info = nd_case(case, data.draw)
        nt = info["secret_reads"] > 0 and (info["partial"] > 0 or info["write_then_other_read"])
        labels = ["dim:%d" % len(case["shape"])]
        if info["oob"]:
            labels.append("out-of-range-access")
        if info.get("trace_compared"):
            labels.append("trace-compared")
        if info["partial"]:
            labels.append("index-shorter-than-depth")
        stats.case(case if nt else None, nt, labels)
        if msg:
            raise core.Violation(case, msg, "nd")

    v = core.drive(test, seed, n_examples)
    if v is not None:
        stats.violations.append({"case": v.case, "msg": v.msg, "key": v.key})
    return stats


def history_shard(seed, n_examples):
    stats = core.Stats()

    @given(st.data())
    def test(data):
        case = draw_history(data.draw)
        msg, info = history_case(case, data.draw)
        nt = info["secret_reads"] > 0 and info["write_then_other_read"] and max(case["shape"]) >= 2
        labels = ["dim:%d" % len(case["shape"])]
        if info["oob"]:
            labels.append("out-of-range-access")
        if info.get("trace_compared"):
            labels.append("trace-compared")
        if info.get("rowops"):
            labels.append("row-copy/store")
        if case.get("same_rows"):
            labels.append("shared-row-objects")
        if len(case["shape"]) == 1 and "F" in case["mask"]:
            labels.append("mixed-int-and-fixed-point-elements")
        stats.case(case if nt else None, nt, labels)
        if msg:
            raise core.Violation(case, msg, "history")

    v = core.drive(test, seed, n_examples)
    if v is not None:
        stats.violations.append({"case": v.case, "msg": v.msg, "key": v.key})
    return stats


def search_case(case):
    """complete search over the index wire in a small field"""
    p, L, mask, write = case["p"], case["len"], case["mask"], case["write"]
    contents = [3 * k + 1 for k in range(L)]
    ns = env.reset(p, 2, 0)
    rec = ns.rec
    arr = mk_array(ns, [L], contents, mask)
    elem_vars = list(range(1, len(rec.vals)))
    ivar = len(rec.vals)
    idx = ns.rt.PrivVal(0)
    wvar = None
    if write:
        wvar = len(rec.vals)
        w = ns.rt.PrivVal(50)
        arr[idx] = w
        results = [x.lc.d if isinstance(x, ns.rt.LinComb) else {0: x} for x in arr.arr]
    else:
        got = arr[idx]
        results = [got.lc.d if isinstance(got, ns.rt.LinComb) else {0: got}]
    trace = rec.snapshot()
    fixed0 = {0: 1}
    for v in elem_vars:
        fixed0[v] = rec.vals[v] % p
    if wvar is not None:
        fixed0[wvar] = 50
    decided = 0
    for iv in range(p):
        fixed = dict(fixed0)
        fixed[ivar] = iv
        free = [v for v in range(1, len(trace["vals"])) if v not in fixed]
        sols, status, nodes = r1cs.solve_all(trace["cons"], p, fixed, free, limit=50, budget=50000)
        if status in ("budget", "partial"):
            return None, decided, "inconclusive"
        decided += 1
        inside = 0 <= iv < L
        if not inside and sols:
            return "index value %d is outside [0,%d) yet the %s circuit is satisfiable" % (iv, L, "write" if write else "read"), decided, "done"
        if inside and not sols:
            return "index value %d is inside the array but the circuit is unsatisfiable" % iv, decided, "done"
        for asg, dc in sols:
            full = dict(asg)
            for v in dc:
                full[v] = 0
            got = [sum(c * full[v] for v, c in d.items()) % p for d in results]
            if any(v in dc and c % p for d in results for v, c in d.items()):
                return "index %d: result depends on an unconstrained variable" % iv, decided, "done"
            if write:
                want = [(50 if k == iv else contents[k]) % p for k in range(L)]
            else:
                want = [contents[iv] % p]
            if got != want:
                return "index %d: constraints admit result %r, model says %r" % (iv, got, want), decided, "done"
    return None, decided, "done"


def search_shard(cases):
    stats = core.Stats()
    for case in cases:
        msg, decided, status = search_case(case)
        if status == "inconclusive":
            stats.inconclusive["budget"] += 1
        stats.case(case, status == "done", ("search:" + ("write" if case["write"] else "read"),), sample_cap=3)
        stats.extra["index_values_decided"] = stats.extra.get("index_values_decided", 0) + decided
        if msg:
            stats.violations.append({"case": case, "msg": "array of length %d, %s: %s" % (case["len"], "write" if case["write"] else "read", msg), "key": "search"})
    return stats


def large_cases(tier):
    """long arrays (lengths around powers of two and usual block sizes), accessed at the first, a middle and the LAST
    position, secretly and publicly, 1-D and as the rows / columns of a matrix"""
    out = []
    lens = [31, 32, 33, 63, 64, 65, 129] if tier == "quick" else [15, 16, 17, 31, 32, 33, 63, 64, 65, 66, 127, 128, 129, 130, 193, 257]
    for n in lens:
        contents = [(7 * i + 3) % 23 - 5 for i in range(n)]
        mask = [i % 3 != 1 for i in range(n)]
        ops = []
        for i in (n - 1, 0, n // 2):
            ops.append(["r", [i], [True], 0, False])
        ops.append(["w", [n - 1], [True], 9, True])
        ops.append(["r", [n - 1], [True], 0, False])
        ops.append(["r", [n - 2], [True], 0, False])
        ops.append(["w", [0], [True], -4, False])
        ops.append(["r", [n - 1], [False], 0, False])
        out.append({"part": "history", "p": "bn128", "b": 16, "shape": [n], "contents": contents, "mask": mask, "ops": ops, "large": True})
    for rows, cols in ([(65, 2), (2, 65)] if tier == "quick" else [(65, 2), (2, 65), (33, 3), (3, 129)]):
        contents = [[(5 * i + 3 * j) % 17 - 3 for j in range(cols)] for i in range(rows)]
        mask = [[(i + j) % 2 == 0 for j in range(cols)] for i in range(rows)]
        ops = [["r", [rows - 1, cols - 1], [True, True], 0, False], ["r", [rows - 1], [True], 0, False],
               ["w", [rows - 1, cols - 1], [True, True], 8, True], ["r", [rows - 1, 0], [True, False], 0, False],
               ["r", [0, cols - 1], [False, True], 0, False], ["w", [rows - 1, 0], [True, False], -2, False],
               ["r", [rows - 1, cols - 1], [True, True], 0, False]]
        out.append({"part": "history", "p": "bls12-381", "b": 16, "shape": [rows, cols], "contents": contents, "mask": mask, "ops": ops, "large": True})
    return out


def oob_case(case):
    """An index outside the array "raises (and cannot be proven)": with checks on, IndexError; with errors ignored the access
    runs, and the witness it records must violate at least one emitted constraint - if it satisfied them all, the outside
    position would be provable. Arrays of any length (a long array may be looked up through another structure). Message or None."""
    n, pos, write = case["n"], case["pos"], case["write"]
    for ignore in (False, True):
        ns = env.reset(ir.resolve_p(case["p"]), 16, 0)
        if case.get("plain"):
            arr = ns.ar.Array([(7 * i + 3) % 23 + 1 for i in range(n)])          # a public table: plain ints only, none of them 0
        else:
            arr = ns.ar.Array([ns.rt.PrivVal((7 * i + 3) % 23) if i % 3 != 1 else (7 * i + 3) % 23 for i in range(n)])
        ix = ns.rt.PrivVal(pos)
        got = None
        if ignore:
            ns.rt.ignore_errors(True)
        try:
            if write:
                arr[ix] = ns.rt.PrivVal(5)
            else:
                got = arr[ix]
            raised = False
        except IndexError:
            raised = True
        finally:
            ns.rt.ignore_errors(False)
        what = "%s at secret position %d of an array of %d elements" % ("write" if write else "read", pos, n)
        if not ignore and not raised:
            return "%s was accepted" % what
        if ignore and not raised and got is not None:
            # whatever the dead read returns, the value it reports is the value of its wire (C04)
            for path, leaf in ir.secret_leaves(ns, got, "result"):
                if (leaf.value - r1cs.lc_value(leaf.lc.d, ns.rec.vals, ns.rec.P)) % ns.rec.P:
                    return "%s, run with errors ignored: the result reports %d but its wire expression evaluates to %d" % (
                        what, leaf.value, ir.centered(r1cs.lc_value(leaf.lc.d, ns.rec.vals, ns.rec.P), ns.rec.P))
        if ignore and not raised and not r1cs.evaluate(ns.rec.snapshot()):
            return "%s, run with errors ignored: the recorded witness satisfies all %d emitted constraints - the outside position is provable" % (what, len(ns.rec.cons))
    return None


def oob_shard(cases):
    stats = core.Stats()
    for case in cases:
        msg = oob_case(case)
        stats.case(case, True, ("outside-position:n%s" % ("<8" if case["n"] < 8 else "<64" if case["n"] < 64 else ">=64"),), sample_cap=1)
        if msg:
            stats.violations.append({"case": case, "msg": msg, "key": "oob"})
            break
    return stats


def large_shard(cases):
    stats = core.Stats()
    for case in cases:
        msg, info = run_history(case)
        stats.case({k: v for k, v in case.items() if k not in ("contents", "mask")}, True, ("large-array:%s" % "x".join(map(str, case["shape"])),), sample_cap=2)
        if msg:
            stats.violations.append({"case": case, "msg": "array of shape %r: %s" % (case["shape"], msg), "key": "large"})
            break
    return stats


def replay(case):
    if case.get("part") == "search":
        return search_case(case)[0]
    if case.get("part") == "nd":
        return nd_case(case)[0]
    if case.get("part") == "oob":
        return oob_case(case)
    return history_case(case)[0]


def run(ctx):
    ctx.rule = RULE
    ctx.assumptions = ["Python list-of-lists reference model", "recorder, evaluator, search engine (p=67 complete per instance)"]
    total = core.Stats()
    n = 200 if ctx.tier == "quick" else 4000
    total.merge_json(core.run_shards("harness.checks.c15", "history_shard",
                                     [dict(seed=ctx.seed * 1000 + i, n_examples=n) for i in range(16)]).to_json())
    total.merge_json(core.run_shards("harness.checks.c15", "nd_shard",
                                     [dict(seed=ctx.seed * 1000 + 500 + i, n_examples=n // 4) for i in range(16)]).to_json())
    cases = []
    lens = [1, 2, 3, 4] if ctx.tier == "quick" else [1, 2, 3, 4, 5, 6]
    for L in lens:
        masks = [[False] * L, [True] * L, [k % 2 == 0 for k in range(L)]]
        for mask in masks:
            for write in (False, True):
                cases.append({"part": "search", "p": 67 if ctx.tier == "quick" or L < 5 else 131, "len": L, "mask": mask, "write": write})
    total.merge_json(core.run_shards("harness.checks.c15", "search_shard", [dict(cases=cases[i::16]) for i in range(16)]).to_json())
    lens_o = [1, 2, 3, 7, 31, 63, 64, 65, 66, 70, 100, 127, 128, 130, 200] if ctx.tier == "quick" else list(range(1, 40)) + [63, 64, 65, 66, 67, 70, 71, 72, 99, 100, 101, 127, 128, 129, 130, 131, 200, 209, 255, 256, 257, 500, 1000, 1023]
    oob = [{"part": "oob", "p": "bn128", "n": n_, "pos": pos, "write": False, "plain": True} for n_ in (1, 2, 3, 5, 8) for pos in (-1, -2, -n_, -n_ - 1, n_, n_ + 1, 2 * n_)]
    oob += [{"part": "oob", "p": "bn128", "n": n_, "pos": pos, "write": w_} for n_ in lens_o for w_ in (False, True)
           for pos in sorted(set(list(range(n_, n_ + (12 if ctx.tier == "quick" else 40))) + [-1, -n_, 2 * n_, n_ * n_, n_ + 64]))]
    total.merge_json(core.run_shards("harness.checks.c15", "oob_shard", [dict(cases=oob[i::16]) for i in range(16)]).to_json())
    big = large_cases(ctx.tier)
    total.merge_json(core.run_shards("harness.checks.c15", "large_shard", [dict(cases=big[i::8]) for i in range(8)]).to_json())
    ctx.stats = total
