"""C12: qaptools equation / wire / I-O files are consistent and split faithfully."""
import json
import os
import shutil
import subprocess
import sys
import tempfile

from hypothesis import given, strategies as st

from harness import core, backends, ir
from harness.decoders import qapfiles

RULE = ("one fresh interpreter per generated program on the real qaptools backend (external binaries replaced by failing "
        "stubs, scratch cwd), with the eight interface functions wrapped in the child to log an independent trace "
        "(values, wire names, constraints, context). Programs: main-context arithmetic with public values and outputs, "
        "@subqap functions with + - * bodies, flat / list / tuple arguments and results (incl. functions returning nothing or a plain "
        "int), called 1-4 times, nested calls, "
        "optionally two different bodies registered under one name, negative and large witness values. Oracle: every "
        "equation of pysnark_eqs holds mod p on pysnark_wires + pysnark_values; every public value has its wire, its o_k "
        "I/O entry with the same value and the linking equation; every traced constraint appears (context-free canonical "
        "form) in the per-function file written by the backend's own proving step, all variables of an equation belong "
        "to one context, and that file holds nothing but traced constraints of that function, one/onex ties, public "
        "links and block declarations; calls of one function name have identical canonical equation sets and digests or "
        "the run reports 'Inconsistent functions' (and it must when the bodies differ); every [glue] pairs two [ioblock]s "
        "of equal length = #LinComb arguments + #results of that call with pairwise equal (mod p) wire values. "
        "Non-trivial = >= 1 sub-circuit call with >= 1 constraint inside and >= 1 constraint traced after the last public "
        "value; distinct by program digest.")
RULE += " Extensions (seeded rounds 10-15): boolean coefficients, the proving step run in the middle of the script, sub-circuit calls under a caller's guard, calls that fail half-way and are repeated, the schedule written by the splitting step. Table-boundary constants (1000, 4096, 5000, 65536 ...) among the generated scalars."


P = backends.FIELDS["qaptools"]
QAPBIN = os.path.join(backends.SHIMS, "qapbin")

PROLOGUE = '''import json, os, sys
import pysnark.qaptools.backend as qb
LOG = []
_p, _u, _c = qb.privval, qb.pubval, qb.add_constraint
def _priv(v):
    r = _p(v); LOG.append(["priv", v, r.sig, qb.vc_ctx]); return r
def _pub(v):
    r = _u(v); LOG.append(["pub", v, r.sig, qb.vc_ctx]); return r
def _con(a, b, c):
    LOG.append(["con", a.sig, b.sig, c.sig, qb.vc_ctx]); return _c(a, b, c)
qb.privval, qb.pubval, qb.add_constraint = _priv, _pub, _con
import pysnark.runtime as rt
from pysnark.runtime import PrivVal, PubVal
if rt.backend is not qb: raise SystemExit("qaptools backend not selected")
CALLS = []
'''


# ---- generation --------------------------------------------------------------

def draw_program(draw):
    nfun = draw(st.integers(1, 3))
    funcs = []
    for fi in range(nfun):
        nargs = draw(st.integers(1, 3))
        shape = draw(st.sampled_from(["flat", "flat", "list", "tuple"]))
        body = []
        nloc = nargs
        for _ in range(draw(st.integers(1, 4))):
            k = draw(st.integers(0, 8))
            if k == 8 and draw(st.integers(0, 4)) == 0:
                # the body multiplies one of its values with a value of the CALLER (a global of the script, not passed as an
                # argument): an equation over wires of two contexts, which the splitting step has to refuse
                body.append(["leak", draw(st.integers(0, nloc - 1)), draw(st.integers(0, 1))])
                nloc += 1
            elif k == 7:
                # the same product computed twice and pinned together by `reps` identical assertions
                body.append(["pin", draw(st.integers(0, nloc - 1)), draw(st.integers(0, nloc - 1)), draw(st.integers(0, 2))])
                nloc += 2
            elif k <= 2:
                body.append(["bin", draw(st.sampled_from("*+-*")), draw(st.integers(0, nloc - 1)), draw(st.integers(0, nloc - 1))])
                nloc += 1
            elif k == 3:
                body.append(["addc", draw(st.integers(0, nloc - 1)), draw(st.integers(-5, 5))])
                nloc += 1
            elif k == 4:
                # (round numbers - 1000, 4096, 5000, 65536 ... - are where tables of pre-rendered coefficients would end)
                body.append(["mulc", draw(st.integers(0, nloc - 1)), draw(st.one_of(st.sampled_from([-2, -1, 0, 2, 3, P - 1, P, P + 2]), st.sampled_from([-2, -1, 0, 2, 3, P - 1, P, P + 2]),
                                                                                  st.sampled_from(ir.MAGIC).flatmap(lambda v: st.sampled_from([v, -v]))))])
                nloc += 1
            elif fi > 0 and k >= 5:
                inner = draw(st.integers(0, fi - 1))
                ia = [draw(st.integers(0, nloc - 1)) for _ in range(funcs[inner]["nargs"])]
                body.append(["call", inner, ia])
                nloc += funcs[inner]["nres"]
            else:
                body.append(["bin", "*", draw(st.integers(0, nloc - 1)), draw(st.integers(0, nloc - 1))])
                nloc += 1
        nres = draw(st.sampled_from([0, 1, 1, 1, 2, 3]))
        nres = min(nres, nloc)
        res = [draw(st.integers(0, nloc - 1)) for _ in range(nres)]
        if nres and all(r < nargs for r in res):
            res[-1] = nloc - 1
        # function names: plain, or sets of names that differ only in a punctuation character ("g.1" / "g_1" / "g-1")
        style = draw(st.sampled_from(["f%d", "f%d", "g.%d", "g_%d", "g-%d", "G%d", "g+%d"]))
        fname = style % (fi if style.startswith("f") else draw(st.integers(0, 1)))
        if any(g_["name"] == fname for g_ in funcs):
            fname = "f%d" % fi
        funcs.append({"name": fname, "nargs": nargs, "shape": shape, "body": body, "nres": nres, "res": res,
                      "rshape": (draw(st.sampled_from(["tuple", "list"])) if nres > 1 else "single") if nres else draw(st.sampled_from(["none", "plainint"]))})
    # optional second body under an existing name
    clash = None
    if draw(st.integers(0, 3)) == 0:
        base = draw(st.integers(0, nfun - 1))
        f = json.loads(json.dumps(funcs[base]))
        pins = [i for i, s_ in enumerate(f["body"]) if s_[0] == "pin"]
        if not pins and draw(st.booleans()):
            stmt_ = ["pin", draw(st.integers(0, f["nargs"] - 1)), draw(st.integers(0, f["nargs"] - 1)), draw(st.integers(0, 2))]
            funcs[base]["body"].append(stmt_)
            f["body"].append(list(stmt_))
            pins = [len(f["body"]) - 1]
        if pins and draw(st.integers(0, 3)) != 0:
            # the other body differs only in HOW OFTEN one identical equation is stated (1-4 more copies)
            f["body"][draw(st.sampled_from(pins))][3] += draw(st.integers(1, 4))
        else:
            f["body"] = f["body"] + [["addc", draw(st.integers(0, f["nargs"] - 1)), draw(st.integers(6, 9))]]
            if f["nres"]:
                f["res"] = f["res"][:-1] + [f["nargs"] + sum(2 if s[0] == "pin" else 1 if s[0] != "call" else funcs[s[1]]["nres"] for s in f["body"]) - 1]
            else:
                f["body"] = f["body"] + [["bin", "*", 0, 0]]
        clash = {"base": base, "func": f}
    main = []
    nv = 0
    vals = st.one_of(st.integers(-9, 9), st.sampled_from([-(1 << 70), 1 << 200, P - 1, P + 5, -P]))
    for _ in range(draw(st.integers(1, 3))):
        main.append([draw(st.sampled_from(["priv", "priv", "pub"])), draw(vals)])
        nv += 1
    ncalls = 0
    for _ in range(draw(st.integers(1, 8))):
        k = draw(st.integers(0, 7))
        if k <= 1:
            main.append([draw(st.sampled_from(["priv", "pub"])), draw(vals)])
            nv += 1
        elif k == 2:
            main.append(["bin", draw(st.sampled_from("*+-*")), draw(st.integers(0, nv - 1)), draw(st.integers(0, nv - 1))])
            nv += 1
        elif k == 3:
            # c1*v_i + c2*v_j with coefficients that may vanish (mod p): a combination whose first term is a zero term
            main.append(["lin", draw(st.integers(0, nv - 1)), draw(st.integers(0, nv - 1)),
                         draw(st.sampled_from([0, 0, 1, -1, 2, P, True, False])), draw(st.sampled_from([1, 1, 0, -1, 3, True]))])
            nv += 1
        elif k == 4:
            main.append(["val", draw(st.integers(0, nv - 1))])
        elif k == 6 and nv > 1 and draw(st.integers(0, 5)) == 0:
            # the proving step is run by hand in the middle of the script (and again at exit, over the whole trace)
            main.append(["prove"])
        elif k == 5 and draw(st.integers(0, 6)) == 0:
            # a sub-circuit call that fails half-way (the body raises after tracing something), caught by the program, which then
            # calls the same function again, successfully
            main.append(["flaky", draw(st.integers(0, nv - 1))])
            nv += 1
        elif k == 7 and draw(st.integers(0, 5)) == 0:
            # a sub-circuit call inside a region guarded by a secret condition of the CALLER (value 0 or 1); the body asserts
            # something that holds for the live call and fails for the dead one
            main.append(["gcall", draw(st.integers(0, nv - 1)), draw(st.integers(0, 1))])
        elif ncalls < 4:
            fi = draw(st.integers(0, nfun - 1))
            use_clash = clash is not None and clash["base"] == fi and draw(st.booleans())
            f = funcs[fi]
            main.append(["call", fi, [draw(st.integers(0, nv - 1)) for _ in range(f["nargs"])], use_clash])
            nv += f["nres"]
            ncalls += 1
    if clash is not None and draw(st.booleans()):
        # make sure both bodies registered under the name are actually called
        f = funcs[clash["base"]]
        for alt in (False, True):
            main.append(["call", clash["base"], [draw(st.integers(0, nv - 1)) for _ in range(f["nargs"])], alt])
            nv += f["nres"]
    if draw(st.booleans()):
        main.append(["bin", "*", draw(st.integers(0, nv - 1)), draw(st.integers(0, nv - 1))])
    return {"funcs": funcs, "clash": clash, "main": main}


def pyname(f):
    """Python identifier of the generated function (the qaptools function NAME may contain other characters)"""
    return "fn_" + "".join(ch if ch.isalnum() else "_%02x" % ord(ch) for ch in f["name"])


def render(prog):
    L = [PROLOGUE]

    def fun(f, py_, funcs):
        L.append('@qb.subqap("%s")' % f["name"])
        args = ["a%d" % i for i in range(f["nargs"])]
        if f["shape"] == "flat":
            L.append("def %s(%s):" % (py_, ", ".join(args)))
        else:
            L.append("def %s(args):" % py_)
            L.append("    %s = args" % (", ".join(args) + ("," if len(args) == 1 else "")))
        loc = list(args)
        for s in f["body"]:
            nm = "t%d" % len(loc)
            if s[0] == "bin":
                L.append("    %s = %s %s %s" % (nm, loc[s[2]], s[1], loc[s[3]]))
                loc.append(nm)
            elif s[0] == "addc":
                L.append("    %s = %s + (%d)" % (nm, loc[s[1]], s[2]))
                loc.append(nm)
            elif s[0] == "mulc":
                L.append("    %s = %s * (%d)" % (nm, loc[s[1]], s[2]))
                loc.append(nm)
            elif s[0] == "leak":
                L.append("    %s = %s" % (nm, "LEAK * %s" % loc[s[1]] if s[2] == 0 else "%s * LEAK" % loc[s[1]]))
                loc.append(nm)
            elif s[0] == "pin":
                nm2 = "t%d" % (len(loc) + 1)
                L.append("    %s = %s * %s" % (nm, loc[s[1]], loc[s[2]]))
                L.append("    %s = %s * %s" % (nm2, loc[s[1]], loc[s[2]]))
                L.append("    for _ in range(%d): %s.assert_eq(%s)" % (s[3], nm, nm2))
                loc.extend([nm, nm2])
            else:
                g = funcs[s[1]]
                names = ["t%d" % (len(loc) + k) for k in range(g["nres"])]
                if g["nres"]:
                    L.append("    %s = %s" % (", ".join(names) + ("," if g["nres"] == 1 and g["rshape"] != "single" else ""), call_expr(g, pyname(g), [loc[i] for i in s[2]])))
                else:
                    L.append("    %s" % call_expr(g, pyname(g), [loc[i] for i in s[2]]))
                loc.extend(names)
        res = [loc[i] for i in f["res"]]
        if f["rshape"] == "none":
            L.append("    return None")
        elif f["rshape"] == "plainint":
            L.append("    return 7")
        elif f["rshape"] == "single":
            L.append("    return %s" % res[0])
        elif f["rshape"] == "tuple":
            L.append("    return (%s,)" % ", ".join(res))
        else:
            L.append("    return [%s]" % ", ".join(res))
        L.append("")

    def call_expr(f, py_, argnames):
        if f["shape"] == "flat":
            return "%s(%s)" % (py_, ", ".join(argnames))
        if f["shape"] == "list":
            return "%s([%s])" % (py_, ", ".join(argnames))
        return "%s((%s,))" % (py_, ", ".join(argnames))
    for f in prog["funcs"]:
        fun(f, pyname(f), prog["funcs"])
    if prog["clash"]:
        fun(prog["clash"]["func"], pyname(prog["clash"]["func"]) + "_alt", prog["funcs"])
    if any(s[0] == "flaky" for s in prog["main"]):
        L += ['@qb.subqap("flaky")', "def flaky(a, fail):", "    t = a * a", "    if fail: raise RuntimeError('boom')", "    return t * a", ""]
    if any(s[0] == "gcall" for s in prog["main"]):
        L += ['@qb.subqap("chkzero")', "def chk_zero(a):", "    a.assert_zero()", "    return a * a", ""]
    v = []
    L.append("LEAK = PrivVal(5)")
    for s in prog["main"]:
        nm = "v%d" % len(v)
        if s[0] in ("priv", "pub"):
            L.append("%s = %s(%d)" % (nm, "PrivVal" if s[0] == "priv" else "PubVal", s[1]))
            v.append(nm)
        elif s[0] == "bin":
            L.append("%s = %s %s %s" % (nm, v[s[2]], s[1], v[s[3]]))
            v.append(nm)
        elif s[0] == "lin":
            L.append("%s = %s * (%r) + %s * (%r)" % (nm, v[s[1]], s[3], v[s[2]], s[4]))      # True / False stay Python bools
            v.append(nm)
        elif s[0] == "val":
            L.append("%s.val()" % v[s[1]])
        elif s[0] == "prove":
            L.append("try:\n    qb.prove()\nexcept Exception as e_:\n    print('early prove:', type(e_).__name__, e_, file=sys.stderr)")
        elif s[0] == "flaky":
            L.append("try:\n    flaky(%s, True)\nexcept RuntimeError:\n    pass" % v[s[1]])
            L.append('CALLS.append(["flaky", 1, 1])')
            L.append("%s = flaky(%s, False)" % (nm, v[s[1]]))
            v.append(nm)
        elif s[0] == "gcall":
            L.append("rt.guarded(PrivVal(%d))(lambda: chk_zero(%s - %s + %d))()" % (s[2], v[s[1]], v[s[1]], 0 if s[2] else 3))
        else:
            f = prog["funcs"][s[1]]
            py = pyname(f) + ("_alt" if s[3] else "")
            names = ["v%d" % (len(v) + k) for k in range(f["nres"])]
            L.append('CALLS.append(["%s", %d, %d])' % (f["name"], f["nargs"], f["nres"]))
            if f["nres"]:
                L.append("%s = %s" % (", ".join(names) + ("," if f["nres"] == 1 and f["rshape"] != "single" else ""), call_expr(f, py, [v[i] for i in s[2]])))
            else:
                L.append(call_expr(f, py, [v[i] for i in s[2]]))
            v.extend(names)
    L.append('json.dump({"log": LOG, "calls": CALLS}, open("trace.json", "w"))')
    return "\n".join(L) + "\n"


# ---- execution and oracle --------------------------------------------------------

def run_child(src, tmp):
    for f in os.listdir(tmp):
        os.remove(os.path.join(tmp, f))
    open(os.path.join(tmp, "prog.py"), "w").write(src)
    envv = dict(os.environ)
    envv.update({"QAPTOOLS_BIN": QAPBIN, "PYTHONPATH": backends.REPO + core.COVPATH, "PYTHONDONTWRITEBYTECODE": "1", "PYTHONHASHSEED": core.hashseed_for(src)})
    envv.pop("PYSNARK_BACKEND", None)
    r = subprocess.run([sys.executable, "prog.py"], cwd=tmp, env=envv, capture_output=True, text=True, timeout=120,
                       start_new_session=True)
    return r


def analyse(prog, tmp, r):
    """returns (message or None, info)"""
    info = {"sub_with_cons": False, "after_last_pub": False}
    rd = lambda f: open(os.path.join(tmp, f)).read()
    if not os.path.exists(os.path.join(tmp, "trace.json")):
        if "Exceeds the limit" in r.stderr and "integer string conversion" in r.stderr:
            # repeated products of unreduced 200-bit witnesses passed CPython's int->str digit limit: a limit of the
            # interpreter on the generated values, not a statement about the files
            info["skipped"] = "int-str-limit"
            return None, info
        return "the program itself failed: %s" % (r.stderr.strip().splitlines()[-1:] or [r.stdout.strip()[-200:]]), info
    tr = json.load(open(os.path.join(tmp, "trace.json")))
    log, calls = tr["log"], tr["calls"]
    if leak_called(prog):
        info["calls"] = len(calls)
        if "Inconsistent contexts" in r.stderr:
            info["mixed_contexts_refused"] = True
            return None, info
        return ("a sub-circuit multiplied one of its values with a value of its caller that was not passed as an argument; the "
                "equation over wires of two contexts was not refused (no 'Inconsistent contexts')"), info
    if any(s[0] == "flaky" for s in prog["main"]):
        info["failed_call"] = True
        if "Inconsistent contexts" in r.stderr:
            # today an abandoned call leaves the backend inside the callee's context and the splitting step reports it
            info["mixed_contexts_refused"] = True
            return None, info
    if any(s[0] == "gcall" for s in prog["main"]):
        info["guarded_call"] = True
        if "Inconsistent contexts" in r.stderr:
            # today a call under a guard of the caller is refused when the equations are split (they mention the caller's guard
            # wire); accepting it is fine as well, provided that everything below holds
            info["mixed_contexts_refused"] = True
            return None, info
    try:
        wires = qapfiles.parse_values(rd("pysnark_wires"))
        ios = qapfiles.parse_values(rd("pysnark_values"))
        eqs = qapfiles.parse_eqs(rd("pysnark_eqs"))
    except (qapfiles.FormatError, OSError) as e:
        return "malformed/missing file: %s" % e, info
    vals = dict(wires)
    vals.update(ios)
    # 1. every equation holds
    fn_of = {}
    for e in eqs:
        if e[0] == "function":
            fn_of[e[2]] = e[1]
    for e in eqs:
        if e[0] == "eq":
            try:
                if not qapfiles.eq_holds(e, vals, P):
                    return "equation %r of pysnark_eqs does not hold on the wire/IO values" % (e[1:4],), info
            except qapfiles.FormatError as ex:
                return "pysnark_eqs: %s" % ex, info
            if len(qapfiles.context_of(e)) > 1:
                return "equation %r mixes contexts %r" % (e[1:4], sorted(qapfiles.context_of(e))), info
    # 2. public values
    npub = {}
    eqset = [e for e in eqs if e[0] == "eq"]
    for ent in log:
        if ent[0] == "pub":
            _, v, sig, ctx = ent
            (c, sid), = sig
            npub[ctx] = npub.get(ctx, 0) + 1
            sido = "%s/o_%d" % (ctx, npub[ctx])
            if wires.get(sid) is None or (wires[sid] - v) % P:
                return "public value %d: wire %s holds %r" % (v, sid, wires.get(sid)), info
            if sido not in ios or (ios[sido] - v) % P:
                return "public value %d has no I/O entry %s with that value (I/O file: %r)" % (v, sido, ios.get(sido)), info
            want = qapfiles.canon_eq([], [], [(1, sid), (-1, sido)], P)
            if not any(qapfiles.canon_eq(e[1], e[2], e[3], P) == want and qapfiles.context_of(e) == {ctx} for e in eqset):
                return "no equation links public wire %s to %s" % (sid, sido), info
        if ent[0] in ("pub", "priv"):
            (c, sid), = ent[2]
            if sid not in wires or (wires[sid] - ent[1]) % P:
                return "wire %s should hold %d, wire file has %r" % (sid, ent[1], wires.get(sid)), info
    # 3. per-function files contain every traced equation of that context and nothing foreign
    traced = {}
    last_pub_idx = max([i for i, e in enumerate(log) if e[0] == "pub"] + [-1])
    for i, ent in enumerate(log):
        if ent[0] == "con":
            a, b, c = [[(k, nm) for k, nm in s] for s in ent[1:4]]
            ctxs = qapfiles.context_of(("eq", a, b, c))
            if len(ctxs) > 1:
                return "traced constraint mixes contexts %r" % sorted(ctxs), info
            ctx = (list(ctxs) or [ent[4]])[0]
            traced.setdefault(ctx, []).append(qapfiles.canon_eq(a, b, c, P))
            if ctx != "main":
                info["sub_with_cons"] = True
            if i > last_pub_idx:
                info["after_last_pub"] = True
    inconsistent = "Inconsistent functions" in r.stderr
    digests = {}
    for ln in r.stderr.splitlines():
        if ln.startswith("***    id:"):
            t = ln.split()
            digests[t[2]] = (t[4], t[6])
    byfn = {}
    for ctx, fn in fn_of.items():
        byfn.setdefault(fn, []).append(ctx)
    expected_sets = {}
    for ctx, fn in fn_of.items():
        expected_sets[ctx] = sorted(traced.get(ctx, []))
    bodies_differ = False
    for fn, ctxs in byfn.items():
        if len({json.dumps(expected_sets[c]) for c in ctxs}) > 1:
            bodies_differ = True
    if bodies_differ and not inconsistent:
        return "calls of one function name traced different equation sets but no inconsistency was reported", info
    if inconsistent:
        if not bodies_differ:
            return "'Inconsistent functions' reported although all calls of each name traced the same equations", info
        info["inconsistent_reported"] = True
        return None, info
    if "Inconsistent contexts" in r.stderr or "Traceback" in r.stderr:
        return "the backend's proving step failed: %s" % r.stderr.strip().splitlines()[-1], info
    # the schedule written by the splitting step: every call context once, pointing at the files of ITS function, and the glue
    # lines of the equation file in the same order
    if os.path.exists(os.path.join(tmp, "pysnark_schedule")):
        sched = [ln.split() for ln in open(os.path.join(tmp, "pysnark_schedule")).read().splitlines() if ln.strip()]
        want_sched = []
        for ln in rd("pysnark_eqs").splitlines():
            tk = ln.split()
            if tk[:1] == ["[function]"]:
                want_sched.append(["[function]", tk[2], "pysnark_eqs_" + tk[1], "pysnark_ek_" + tk[1], "pysnark_vk_" + tk[1]])
            elif tk[:1] == ["[glue]"]:
                want_sched.append(tk)
        got_sched = [[os.path.basename(x) for x in ln] for ln in sched if ln[0] in ("[function]", "[glue]")]
        if got_sched != want_sched:
            bad_ = [(g, w) for g, w in zip(got_sched + [None] * len(want_sched), want_sched + [None] * len(got_sched)) if g != w][0]
            return "the schedule written by the proving step has %r where the equation file calls for %r" % bad_, info
    for fn, ctxs in byfn.items():
        path = os.path.join(tmp, "pysnark_eqs_" + fn)
        if not os.path.exists(path):
            return "per-function file pysnark_eqs_%s was not written" % fn, info
        try:
            feqs = qapfiles.parse_eqs(open(path).read())
        except qapfiles.FormatError as e:
            return "pysnark_eqs_%s: %s" % (fn, e), info
        have = [qapfiles.canon_eq(e[1], e[2], e[3], P) for e in feqs if e[0] == "eq"]
        for ctx in ctxs:
            want = list(expected_sets[ctx])
            pool = list(have)
            for w in want:
                if w in pool:
                    pool.remove(w)
                else:
                    return ("pysnark_eqs_%s (written by the proving step) lacks traced equation %r of call %s "
                            "(%d traced, %d equations in the file)" % (fn, w, ctx, len(want), len(have))), info
            # what remains must be structural: one/onex tie or public links
            for extra in pool:
                a, b, c = extra
                names = [nm for nm, k in c]
                structural = (not a and not b) and (set(names) == {"one", "onex"} or (len(names) == 2 and any(n.startswith("o_") for n in names)))
                if not structural:
                    return "pysnark_eqs_%s contains equation %r that call %s never traced" % (fn, extra, ctx), info
        ds = {digests.get(c, (None, None))[1] for c in ctxs}
        if len(ds) > 1:
            return "calls %r of function %s have different digests %r although their equations agree" % (ctxs, fn, ds), info
    # 5. glue
    blocks = {}
    for e in eqs:
        if e[0] == "ioblock":
            if (e[1], e[2]) in blocks:
                return "block name %s declared twice in call %s (wires %r and %r)" % (e[2], e[1], blocks[(e[1], e[2])], e[3]), info
            blocks[(e[1], e[2])] = e[3]
    glues = [e for e in eqs if e[0] == "glue"]
    if len(glues) != len([1 for ent in log if False]) + count_calls(log, fn_of):
        pass
    sub_calls = [c for c in fn_of if c != "main"]
    if len(glues) != len(sub_calls):
        return "%d sub-circuit calls but %d [glue] lines" % (len(sub_calls), len(glues)), info
    sizes = {}
    for f in prog["funcs"]:
        sizes[f["name"]] = f["nargs"] + f["nres"]
    for g in glues:
        _, c1, b1, c2, b2 = g
        if (c1, b1) not in blocks or (c2, b2) not in blocks:
            return "[glue] %s refers to an undeclared block" % (g[1:],), info
        w1, w2 = blocks[(c1, b1)], blocks[(c2, b2)]
        if len(w1) != len(w2):
            return "[glue] %s pairs blocks of different length %d / %d" % (g[1:], len(w1), len(w2)), info
        fn = fn_of.get(c2)
        if fn in sizes and len(w1) != sizes[fn]:
            return "call %s of %s has %d LinComb arguments+results but its blocks list %d wires" % (c2, fn, sizes[fn], len(w1)), info
        for x, y in zip(w1, w2):
            if x not in wires or y not in wires or (wires[x] - wires[y]) % P:
                return "[glue] %s: wires %s and %s carry different values" % (g[1:], x, y), info
            if not x.startswith(c1 + "/") or not y.startswith(c2 + "/"):
                return "[glue] %s: block wire outside its context" % (g[1:],), info
    info["calls"] = len(sub_calls)
    return None, info


def leak_called(prog):
    """does main call (directly or through nested calls) a function body that uses the caller's global?"""
    funcs = prog["funcs"]
    leaky = set()
    changed = True
    bodies = {i: f["body"] for i, f in enumerate(funcs)}
    while changed:
        changed = False
        for i, body in bodies.items():
            if i not in leaky and any(s[0] == "leak" or (s[0] == "call" and s[1] in leaky) for s in body):
                leaky.add(i)
                changed = True
    alt_leaky = False
    if prog.get("clash"):
        alt_leaky = any(s[0] == "leak" or (s[0] == "call" and s[1] in leaky) for s in prog["clash"]["func"]["body"])
    for s in prog["main"]:
        if s[0] == "call":
            if (s[3] and alt_leaky) or (not s[3] and s[1] in leaky):
                return True
    return False


def count_calls(log, fn_of):
    return len([c for c in fn_of if c != "main"])


def judge(prog, tmp):
    src = render(prog)
    r = run_child(src, tmp)
    msg, info = analyse(prog, tmp, r)
    return msg, info, src


def shard(seed, n_examples):
    stats = core.Stats()
    tmp = tempfile.mkdtemp(prefix="verif-c12-")
    try:
        @given(st.data())
        def test(data):
            prog = draw_program(data.draw)
            msg, info, src = judge(prog, tmp)
            nt = info["sub_with_cons"] and info["after_last_pub"] and msg is None
            labels = ["calls:%d" % info.get("calls", 0)]
            if prog["clash"]:
                labels.append("two-bodies-one-name")
            if info.get("inconsistent_reported"):
                labels.append("inconsistency-reported")
            if info.get("skipped"):
                stats.inconclusive[info["skipped"]] += 1
            if info.get("mixed_contexts_refused"):
                labels.append("mixed-contexts-refused")
            if info.get("guarded_call"):
                labels.append("sub-circuit-call-under-a-guard-of-the-caller")
            if any(s_[0] == "prove" for s_ in prog["main"]):
                labels.append("proving-step-run-twice")
            if info.get("failed_call"):
                labels.append("sub-circuit-call-failed-and-repeated")
            if info["after_last_pub"]:
                labels.append("constraint-after-last-public-value")
            stats.case(prog if nt else None, nt, labels)
            if msg:
                raise core.Violation({"prog": prog}, msg, "files")
        v = core.drive(test, seed, n_examples)
        if v is not None:
            if "prog" in v.case:
                v.case["source"] = render(v.case["prog"]).split("\n")[len(PROLOGUE.split("\n")) - 1:]
            stats.violations.append({"case": v.case, "msg": v.msg, "key": v.key})
    finally:
        shutil.rmtree(tmp, ignore_errors=True)
    return stats


def sig_case(case):
    """The signature of a function's equation set ("a different signature whenever the equations differ"): two sorted line lists
    that differ in one line - the same digits with the token boundary moved (coefficient 11 on wire 2 / coefficient 1 on wire
    12), a wire renamed, a coefficient changed, a line added - have different signatures; equal lists have equal ones."""
    sys.path.insert(0, backends.REPO) if backends.REPO not in sys.path else None
    import importlib
    qs = importlib.import_module("pysnark.qaptools.qapsplit")
    a, b = case["a"], case["b"]
    ha, hb = qs.qaphash(sorted(a)), qs.qaphash(sorted(b))
    if sorted(a) == sorted(b):
        return None if ha == hb else "equal equation sets have signatures %s and %s" % (ha, hb)
    if ha == hb:
        return "the equation sets %r and %r differ but have the same signature %s" % (a, b, ha)
    return None


def sig_shard(seed, n_examples):
    stats = core.Stats()

    @given(st.data())
    def test(data):
        draw = data.draw
        def line():
            def term():
                return "%d %d" % (draw(st.integers(1, 130)), draw(st.integers(1, 130)))
            return " ".join(term() for _ in range(draw(st.integers(1, 2)))) + " * " + term() + " = " + term() + " ."
        a = [line() for _ in range(draw(st.integers(1, 4)))]
        # the lines that list a block's wires are part of what is signed: "[ioblock] <name> <wire> <wire> ..."
        nblk = draw(st.integers(0, 2))
        for j_ in range(nblk):
            a.append("[ioblock] %s %s" % (draw(st.sampled_from(["4", "f0", "g.1"])), " ".join(str(w) for w in draw(st.lists(st.integers(1, 12), min_size=1, max_size=4)))))
        b = list(a)
        k = draw(st.integers(0, 5 if nblk else 4))
        i = draw(st.integers(0, len(a) - 1 - nblk))
        if k == 5:
            # the same block with its wires in another order / one wire replaced: another layout, another signature
            i = len(a) - 1 - draw(st.integers(0, nblk - 1))
            head, ws = b[i].split(" ")[:2], b[i].split(" ")[2:]
            if len(set(ws)) > 1 and draw(st.booleans()):
                ws2 = draw(st.permutations(ws).filter(lambda q_: list(q_) != ws))
            else:
                j_ = draw(st.integers(0, len(ws) - 1))
                ws2 = ws[:j_] + [str(int(ws[j_]) + 1)] + ws[j_ + 1:]
            b[i] = " ".join(head + list(ws2))
        toks = b[i].split(" ")
        nums = [j for j in range(len(toks) - 1) if toks[j].isdigit() and toks[j + 1].isdigit()]
        if k == 0 and nums:
            # move one digit across a token boundary: "11 2" <-> "1 12"
            j = draw(st.sampled_from(nums))
            if len(toks[j]) > 1:
                toks[j], toks[j + 1] = toks[j][:-1], toks[j][-1] + toks[j + 1]
            else:
                toks[j], toks[j + 1] = toks[j] + toks[j + 1][0], toks[j + 1][1:] or "0"
            b[i] = " ".join(toks)
        elif k == 1 and nums:
            j = draw(st.sampled_from(nums))
            toks[j] = str(int(toks[j]) + 1)
            b[i] = " ".join(toks)
        elif k == 2:
            b.append(line())
        elif k == 3:
            b = list(reversed(a))
        case = {"part": "signature", "a": a, "b": b}
        msg = sig_case(case)
        stats.case(case, sorted(a) != sorted(b), ("signature:" + ["boundary-moved", "number-changed", "line-added", "reordered", "same", "block-layout-changed"][k],), sample_cap=1)
        if msg:
            raise core.Violation(case, msg, "signature")
    v = core.drive(test, seed, n_examples)
    if v is not None:
        stats.violations.append({"case": v.case, "msg": v.msg, "key": v.key})
    return stats


def replay(case):
    if case.get("part") == "signature":
        return sig_case(case)
    tmp = tempfile.mkdtemp(prefix="verif-c12-")
    try:
        return judge(case["prog"], tmp)[0]
    finally:
        shutil.rmtree(tmp, ignore_errors=True)


def run(ctx):
    ctx.rule = RULE
    ctx.assumptions = ["external qaptools binaries replaced by failing stubs: the backend's own splitting step runs, key generation/proving do not",
                       "own parser/evaluator of the equation grammar (harness/decoders/qapfiles.py)",
                       "the child wraps backend.privval/pubval/add_constraint to log the independent trace"]
    n = 80 if ctx.tier == "quick" else 1000
    ctx.stats = core.run_shards("harness.checks.c12", "shard", [dict(seed=ctx.seed * 1000 + i, n_examples=n) for i in range(16)])
    ctx.stats.merge_json(core.run_shards("harness.checks.c12", "sig_shard", [dict(seed=ctx.seed * 1000 + 300 + i, n_examples=200 if ctx.tier == "quick" else 5000) for i in range(4)]).to_json())
