"""C04: every reported value equals its wire expression on the recorded witness."""
from hypothesis import given, strategies as st

from harness import core, ir, r1cs

RULE = ("same program generator as C01, additionally with ignore_errors toggled on/off at arbitrary points, a high "
        "rate of operands invalid for the operation, and nested guards of both values. Oracle: after every statement, "
        "for every LinComb reachable from every value produced so far (LinComb, .lc of LinCombBool/LinCombFxp, bit "
        "lists, tuples, Array contents) lc evaluated on the recorded witness == reported .value (mod p); all earlier "
        "results are re-checked at the end (catches in-place updates of shared objects). Non-trivial = some operator "
        "in the program allocated a witness variable while error suppression or a guard was active, or the program "
        "completed with >= 1 allocating operator; distinct by program digest. Cell sweep: every (operation x "
        "operand-type combination) x a fixed pool of in/out-of-domain operands x modes {normal, ignore_errors, guard 0, "
        "guard 1, guard 1 around 0, guard 0 around 1}; there non-trivial = non-normal mode and the operation allocated a witness.")
RULE += " Extensions (seeded rounds 10-15): deterministic chains (as they are and with errors ignored), unpacked records, copies."



class Checker:
    def __init__(self):
        self.seen = 0

    def check_from(self, m, start, stmt):
        ns = m.ns
        rec = ns.rec
        for i in range(start, len(m.vals)):
            for path, leaf in ir.secret_leaves(ns, m.vals[i], "v%d" % i):
                if not isinstance(leaf.value, int):
                    raise core.Violation(m.program(), "%s reports non-integer value %r after %r" % (path, leaf.value, stmt))
                w = r1cs.lc_value(leaf.lc.d, rec.vals, rec.P)
                if (leaf.value - w) % rec.P:
                    raise core.Violation(
                        m.program(), "%s reports value %d but its wire expression %r evaluates to %d (mod p) after %r"
                        % (path, leaf.value, leaf.lc.d, ir.centered(w, rec.P), stmt))

    def __call__(self, m, stmt, out):
        self.check_from(m, self.seen, stmt)
        self.seen = len(m.vals)


def nontrivial_of(m, labels):
    return "alloc-under-suppression" in labels or (m.raised is None and "alloc" in labels)


def one_case(draw, stats):
    cfg = ir.gen_cfg(draw, st)
    cfg["ignore"] = draw(st.booleans())
    n = draw(st.integers(1, 14))
    chk = Checker()
    labels = set()

    def after(m, stmt, out):
        chk(m, stmt, out)

    m = ir.Machine(cfg)
    g = ir.Gen(draw, st, m, p_out_of_domain=0.35 if cfg["ignore"] else 0.05, allow_ignore=True)
    rec = m.ns.rec
    for _ in range(n):
        before_vars = len(rec.vals)
        suppressed = m.ns.rt.ignore_errors() or m.ns.rt.guard is not None
        pos = len(m.stmts)
        g.step()
        if len(rec.vals) > before_vars:
            labels.add("alloc")
            if suppressed or any(s[0] == "guard" for s in m.stmts[pos:]) or m.ns.rt.ignore_errors():
                labels.add("alloc-under-suppression")
        for s in m.stmts[pos:]:
            chk(m, s, None)
        if m.raised:
            break
    chk.check_from(m, 0, "end of program")
    labels |= g.labels
    labels.add("ignore_errors:start=%s" % cfg["ignore"])
    labels.add("run:completed" if m.raised is None else "run:raised:" + type(m.raised[1]).__name__)
    nt = nontrivial_of(m, labels)
    stats.case(m.program() if nt else None, nt, labels)


def shard(seed, n_examples, shrink=True):
    stats = core.Stats()

    @given(st.data())
    def test(data):
        one_case(data.draw, stats)

    v = core.drive(test, seed, n_examples, shrink=shrink)
    return core.finish_shard(stats, v, replay)


MODES = ["normal", "ignore", "guard0", "guard1", "guard10", "guard01"]


def grid_shard(cells, b, p):
    """cell sweep: every (operation x operand-type combination) x a fixed operand pool x every mode"""
    import itertools
    from harness import opgrid
    stats = core.Stats()
    found = {}
    lim = 1 << b
    ipool = [-lim - 1, -1, 0, 1, 2, 3, lim - 1, lim]
    for name, ts in cells:
        op = ir.OPS[name]
        pools = []
        for pos, t in enumerate(ts):
            if pos in op.params:
                pools.append([0, 1, b, b + 1])
            elif t in "Bb":
                pools.append([0, 1])
            elif t == "f":
                pools.append([["f", 3, 2], ["f", -1, 1], ["f", 2, 1], ["f", 4, 1], ["f", 1, 4]])
            else:
                pools.append(ipool)
        for vals in itertools.product(*pools):
            for mode in MODES:
                args = [(t, "priv" if i % 2 == 0 else "pub", v) for i, (t, v) in enumerate(zip(ts, vals))]
                prog = opgrid.single({"p": p, "b": b, "r": 2, "ignore": False}, name, args, mode)
                chk = Checker()
                try:
                    m = ir.run_program(prog, after=chk)
                    chk.check_from(m, 0, "end of program")
                except core.Violation as v:
                    key = "%s.%s.%s" % (name, ts, mode)
                    if key not in found:
                        found[key] = {"case": prog, "msg": v.msg, "key": key}
                    m = None
                nt = mode != "normal" and m is not None and len(m.ns.rec.vals) > len(args) + 1 + (len(mode) - 5 if mode.startswith("guard") else 0)
                stats.case([name, ts, [str(v) for v in vals], mode], nt,
                           ("mode:" + mode, "op:" + name), sample_cap=2)
    stats.violations = list(found.values())
    return stats


def chain_shard(b, p):
    """deterministic chains (ir.chain_programs), as they are and with error checking off: whatever an operation makes of the
    output of the previous one, the value it reports is the value of its wire"""
    stats = core.Stats()
    found = {}
    for prog0 in ir.chain_programs(b, p):
        for ign in (False, True):
            prog = dict(prog0, cfg=dict(prog0["cfg"], ignore=ign))
            chk = Checker()
            key = "chain." + "-".join(s_[1] for s_ in prog["stmts"] if s_[0] == "op") + (".ignore" if ign else "")
            try:
                m = ir.run_program(prog, after=chk)
                chk.check_from(m, 0, "end of program")
            except core.Violation as v:
                found.setdefault(key, {"case": prog, "msg": v.msg, "key": key})
            stats.case(prog, True, ("chain" + (":ignore" if ign else ""),), sample_cap=1)
    stats.violations = list(found.values())
    return stats


def replay(case):
    if case.get("part") == "oob":
        from harness.checks import c15
        return c15.oob_case(case)
    chk = Checker()
    try:
        m = ir.run_program(case, after=chk)
        chk.check_from(m, 0, "end of program")
    except core.Violation as v:
        return v.msg
    return None


def run(ctx):
    ctx.rule = RULE
    ctx.assumptions = ["recorder backend and linear-combination evaluator are correct", "Hypothesis generator (seeded)"]
    if ctx.tier == "quick":
        shards = [dict(seed=ctx.seed * 1000 + i, n_examples=250) for i in range(16)]
    else:
        shards = [dict(seed=ctx.seed * 1000 + 100 + i, n_examples=4000) for i in range(16)]
    from harness import opgrid
    cells = []
    for name in ir.OPS:
        for ts in opgrid.type_combos(name):
            if any(t in "LA" for t in ts) or len(ts) > 3:
                continue
            cells.append((name, "".join(ts)))
    grids = [(3, "bn128")] if ctx.tier == "quick" else [(2, 67), (3, "bn128"), (4, "bls12-381"), (8, "curve25519")]
    total = core.Stats()
    for b, p in grids:
        total.merge_json(core.run_shards("harness.checks.c04", "grid_shard",
                                         [dict(cells=cells[i::16], b=b, p=p) for i in range(16)]).to_json())
    # reads of arrays at secret positions outside them, with errors ignored: value = wire whatever is returned (shared with C15)
    oob = [{"part": "oob", "p": "bn128", "n": n_, "pos": pos, "write": False, "plain": pl} for pl in (True, False) for n_ in (1, 2, 3, 5, 8, 64, 70)
           for pos in (-1, -2, -n_, -n_ - 1, n_, n_ + 1, 2 * n_)]
    total.merge_json(core.run_shards("harness.checks.c15", "oob_shard", [dict(cases=oob[i::4]) for i in range(4)]).to_json())
    total.merge_json(core.run_shards("harness.checks.c04", "chain_shard", [dict(b=8, p="bn128"), dict(b=16, p="bls12-381")]).to_json())
    total.merge_json(core.run_shards("harness.checks.c04", "shard", shards).to_json())
    total.extra["shard_seeds"] = [s["seed"] for s in shards]
    total.extra["cell_sweep"] = {"cells": len(cells), "modes": MODES, "grids": [list(g) for g in grids]}
    ctx.stats = total
