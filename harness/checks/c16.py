"""C16: bit decomposition and packing round-trip at the requested width."""
from hypothesis import given, strategies as st

from harness import core, env, r1cs
from harness.checks import c03

RULE = ("(a) widths: every (global bitlength b in 2..4[5], requested width n in 0..b+3, value v in [-3, 2^n+3]): "
        "from_bits(to_bits(v, n)) == v for 0 <= v < 2^n, rejection outside, on real and small fields, enumerated "
        "completely; and by witness-space search (as C03) the satisfiable operand set of to_bits(n) and of "
        "assert_positive(bits=n) is exactly [0, 2^n) over all of F_p for n != b. The wires / constraints emitted by to_bits(n), check_positive(n), assert_positive(n) are the same for every value within a mode and "
        "equal between plain and ignore-errors runs and between true and false guards (the width decomposed is the width requested on every path). (b) packers: schemas from a recursive "
        "strategy over PackBool / PackIntMod(m>=2) / PackList / PackRepeat with plain, secret (PrivVal) and mixed plain/secret leaves: "
        "unpack(pack(x)) == x by value also at a non-zero bit offset, bitlen() == len(pack(x)), emitted constraints "
        "satisfied, plain out-of-range leaves rejected. Non-trivial = n != b for (a); schema depth >= 2 with a "
        "non-power-of-two modulus for (b); distinct by case digest.")
RULE += " Extensions (seeded rounds 10-15): widths 63-250 in the real field, shape of width-limited decompositions in every mode, settings left intact by the packers, values reassembled from raw wires and declared n-bit."


def widths_shard(bs, p):
    stats = core.Stats()
    found = {}
    from harness.intlike import IntLike
    for b in bs:
      for wrap in (False, True):
        for n in range(0, b + 4):
            for v in range(-3, (1 << n) + 4):
                if wrap and v not in (-1, 0, 1, (1 << n) - 1, 1 << n):
                    continue
                ns = env.reset(p, b, 0)
                x = ns.rt.PrivVal(v)
                case = {"part": "width", "p": p, "b": b, "n": n, "v": v}
                if wrap:
                    case["intlike"] = True      # the width as an integer-like object (numpy.int64 style), not an int
                inside = 0 <= v < (1 << n)
                try:
                    bits = x.to_bits(IntLike(n) if wrap else n)
                    y = ns.rt.LinComb.from_bits(bits) if n else 0
                    yv = y.value if hasattr(y, "value") else y
                    if not inside:
                        found.setdefault("to_bits.accepts-out-of-range", {"case": case, "key": "to_bits.accepts-out-of-range",
                            "msg": "to_bits(%d) accepted %d at bitlength %d" % (n, v, b)})
                    elif len(bits) != n or yv != v or [bb.lc.value for bb in bits] != [(v >> i) & 1 for i in range(n)]:
                        found.setdefault("to_bits.roundtrip", {"case": case, "key": "to_bits.roundtrip",
                            "msg": "from_bits(to_bits(%d,%d)) gave %r with %d bits at bitlength %d" % (v, n, yv, len(bits), b)})
                    elif r1cs.evaluate(ns.rec.snapshot()):
                        found.setdefault("to_bits.unsatisfied", {"case": case, "key": "to_bits.unsatisfied",
                            "msg": "to_bits(%d,%d) emitted constraints its witness violates" % (v, n)})
                except AssertionError:
                    if inside:
                        found.setdefault("to_bits.rejects-in-range", {"case": case, "key": "to_bits.rejects-in-range",
                            "msg": "to_bits(%d) rejected %d at bitlength %d" % (n, v, b)})
                stats.case(case, n != b, ("width:n%sb" % ("=" if n == b else "<" if n < b else ">"),) + (("width-as-intlike",) if wrap else ()), sample_cap=3)
    # widths beyond a machine word (65, 100, 200 ... bits, given explicitly or as the global bitlength): n bits come back, values
    # up to 2^n - 1 round-trip, and for a value of n+1 or more bits the witness recorded with errors ignored violates a constraint
    # (an explicit assignment: were every constraint satisfied, the out-of-range value would be provable)
    if p > (1 << 250):
        for n in (63, 64, 65, 100, 127, 128, 129, 200, 250):
            for b in sorted({16, n}):
                for v in (0, 1, (1 << n) - 1, (1 << (n - 1)) + 5):
                    ns = env.reset(p, b, 0)
                    case = {"part": "width", "p": p, "b": b, "n": n, "v": ["pow2", n, v - (1 << n)], "large": True}
                    try:
                        bits = ns.rt.PrivVal(v).to_bits(n)
                        ns.rt.PrivVal(v).assert_positive(n)
                    except (AssertionError, ValueError) as e:
                        found.setdefault("large.rejects-in-range", {"case": case, "key": "large.rejects-in-range", "msg": "to_bits(%d) / assert_positive(%d) rejected a %d-bit value at bitlength %d: %s" % (n, n, v.bit_length(), b, e)})
                        continue
                    if len(bits) != n or sum(bb.lc.value << i for i, bb in enumerate(bits)) != v or r1cs.evaluate(ns.rec.snapshot()):
                        found.setdefault("large.roundtrip", {"case": case, "key": "large.roundtrip", "msg": "to_bits(%d) of a %d-bit value at bitlength %d returned %d bits (or not its bits, or an unsatisfied circuit)" % (n, v.bit_length(), b, len(bits))})
                    stats.case(case, True, ("width:large",), sample_cap=2)
                for v in (1 << n, (1 << n) + 1, (1 << (64 * ((n + 63) // 64))) - 1, (1 << (n + 1)) + 3):
                    if v >= p or v < (1 << n):
                        continue
                    for opn in ("to_bits", "assert_positive"):
                        ns = env.reset(p, b, 0)
                        case = {"part": "width", "p": p, "b": b, "n": n, "v": ["pow2", n, v - (1 << n)], "large": True, "op": opn}
                        x = ns.rt.PrivVal(v)
                        try:
                            getattr(x, opn)(n)
                            found.setdefault("large.accepts", {"case": case, "key": "large.accepts", "msg": "%s(%d) accepted a %d-bit value at bitlength %d" % (opn, n, v.bit_length(), b)})
                            continue
                        except (AssertionError, ValueError):
                            pass
                        ns = env.reset(p, b, 0)
                        x = ns.rt.PrivVal(v)
                        ns.rt.ignore_errors(True)
                        try:
                            getattr(x, opn)(n)
                        finally:
                            ns.rt.ignore_errors(False)
                        if not r1cs.evaluate(ns.rec.snapshot()):
                            found.setdefault("large.not-enforced", {"case": case, "key": "large.not-enforced",
                                "msg": "%s(%d) at bitlength %d: with errors ignored a %d-bit value leaves every emitted constraint satisfied - the width enforced in the circuit is not the %d bits requested" % (opn, n, b, v.bit_length(), n)})
                        stats.case(case, True, ("width:large-out-of-range",), sample_cap=2)
    # the requested width is the width of the decomposition in EVERY mode: with errors ignored, under a false guard and under a
    # true guard the call emits as many wires and constraints as for a value that fits (a fallback path that decomposes at
    # the global bitlength instead of the requested width would show here, and nowhere in the values)
    OPS = {"to_bits": lambda x, n: x.to_bits(n), "check_positive": lambda x, n: x.check_positive(n),
           "assert_positive": lambda x, n: x.assert_positive(n)}
    for b in bs:
        for n in range(0, b + 4):
            for opn, fn in OPS.items():
                shapes = {}
                for mode in ("plain", "ignore", "guard1", "guard0"):
                    for v in (0, 1, (1 << n) - 1, 1 << n, (1 << n) + 1, -1, -(1 << n), (1 << (b + 2)) + 1):
                        ns = env.reset(p, b, 0)
                        x = ns.rt.PrivVal(v)
                        g = ns.rt.PrivVal(0 if mode == "guard0" else 1)
                        nv, nc = len(ns.rec.vals), len(ns.rec.cons)
                        try:
                            if mode == "ignore":
                                ns.rt.ignore_errors(True)
                            if mode.startswith("guard"):
                                ns.rt.guarded(g)(lambda: fn(x, n))()
                            else:
                                fn(x, n)
                        except (AssertionError, ValueError):
                            continue
                        finally:
                            if mode == "ignore":
                                ns.rt.ignore_errors(False)
                        shapes.setdefault(mode, {})[v] = (len(ns.rec.vals) - nv, len(ns.rec.cons) - nc)
                case = {"part": "shape", "p": p, "b": b, "n": n, "op": opn}
                msg = None
                for mode, d in shapes.items():
                    if len(set(d.values())) > 1:
                        msg = "%s(%d) at bitlength %d (%s): (wires, constraints) emitted depend on the value: %r" % (opn, n, b, mode, d)
                for m1, m2 in (("plain", "ignore"), ("guard1", "guard0")):
                    if not msg and shapes.get(m1) and shapes.get(m2) and set(shapes[m1].values()) != set(shapes[m2].values()):
                        msg = "%s(%d) at bitlength %d: (wires, constraints) are %r in mode %s but %r in mode %s: the width decomposed is not the width requested" % (
                            opn, n, b, sorted(set(shapes[m1].values())), m1, sorted(set(shapes[m2].values())), m2)
                if msg:
                    found.setdefault("width.shape." + opn, {"case": case, "key": "width.shape." + opn, "msg": msg})
                stats.case(case, n != b, ("shape:" + opn, "width:n%sb" % ("=" if n == b else "<" if n < b else ">")), sample_cap=3)
    stats.violations = list(found.values())
    return stats


def enforce_shard(items, p, b):
    stats = core.Stats()
    found = {}
    ks = {k.name: k for k in c03.kinds(b)}
    for name, prm in items:
        c03.check_kind(ks[name], prm, p, b, 0, stats, {}, found)
    for v in found.values():
        v["case"]["part"] = "enforce"
    stats.violations = list(found.values())
    return stats


# ---- packers

def schemas():
    big = st.tuples(st.integers(1, 70), st.sampled_from([-1, 0, 1, 3])).map(lambda kd: ["int", max(2, (1 << kd[0]) + kd[1])])
    leaf = st.one_of(st.just(["bool"]), st.integers(1, 20).map(lambda m: ["int", m]), st.integers(2, 20).map(lambda m: ["int", m]), big)
    return st.recursive(leaf, lambda ch: st.one_of(
        st.lists(ch, min_size=1, max_size=3).map(lambda l: ["list", l]),
        st.tuples(ch, st.integers(1, 3)).map(lambda t: ["rep", t[0], t[1]])), max_leaves=6)


def maxbits(s):
    if s[0] == "int":
        return (s[1] - 1).bit_length()
    if s[0] == "list":
        return max(maxbits(x) for x in s[1])
    if s[0] == "rep":
        return maxbits(s[1])
    return 1


def depth(s):
    if s[0] == "list":
        return 1 + max(depth(x) for x in s[1])
    if s[0] == "rep":
        return 1 + depth(s[1])
    return 1


def nonpow2(s):
    if s[0] == "int":
        return s[1] & (s[1] - 1) != 0
    if s[0] == "list":
        return any(nonpow2(x) for x in s[1])
    if s[0] == "rep":
        return nonpow2(s[1])
    return False


def build(ns, s):
    pk = ns.pk
    if s[0] == "bool":
        return pk.PackBool()
    if s[0] == "int":
        return pk.PackIntMod(s[1])
    if s[0] == "list":
        return pk.PackList([build(ns, x) for x in s[1]])
    return pk.PackRepeat(build(ns, s[1]), s[2])


def draw_value(draw, s):
    if s[0] == "bool":
        return draw(st.integers(0, 1))
    if s[0] == "int":
        return draw(st.one_of(st.integers(0, s[1] - 1), st.sampled_from([0, s[1] - 1, min(s[1] - 1, (s[1] - 1) // 2 + 1)])))
    if s[0] == "list":
        return [draw_value(draw, x) for x in s[1]]
    return [draw_value(draw, s[1]) for _ in range(s[2])]


def secretise(ns, s, v, mask=None):
    """mask: None = every leaf secret; else an iterator of booleans, one per leaf in traversal order"""
    if s[0] in ("bool", "int"):
        return ns.rt.PrivVal(v) if (mask is None or next(mask)) else v
    if s[0] == "list":
        return [secretise(ns, x, y, mask) for x, y in zip(s[1], v)]
    return [secretise(ns, s[1], y, mask) for y in v]


def plainify(ns, x):
    if isinstance(x, list):
        return [plainify(ns, y) for y in x]
    if isinstance(x, ns.rt.LinComb):
        return x.value
    if isinstance(x, ns.bo.LinCombBool):
        return x.lc.value
    return x


def bitlen_ref(s):
    if s[0] == "bool":
        return 1
    if s[0] == "int":
        return (s[1] - 1).bit_length()
    if s[0] == "list":
        return sum(bitlen_ref(x) for x in s[1])
    return bitlen_ref(s[1]) * s[2]


def break_value(draw, s, v):
    """returns a copy of v with one int leaf out of range, or None"""
    if s[0] == "int":
        # outside [0, mod) - or not an integer at all: a float between two integers, a numeric string
        # (a zero-width field, mod 1, never looks at its value's bits: non-integers are only drawn for mod >= 2)
        return draw(st.sampled_from([s[1], s[1] + 1, -1] + ([-0.5, s[1] - 0.5, str(s[1] - 1), 0.25] if s[1] >= 2 else [-0.5])))
    if s[0] == "list":
        for i, x in enumerate(s[1]):
            w = break_value(draw, x, v[i])
            if w is not None:
                return v[:i] + [w] + v[i + 1:]
    if s[0] == "rep":
        w = break_value(draw, s[1], v[0])
        if w is not None:
            return [w] + v[1:]
    return None


def pack_case(case):
    """returns None or message. Whatever the packers do - accept, reject, run with errors ignored - the settings the program made
    (runtime.bitlength, the fixed-point resolution) are still in force afterwards."""
    msg = _pack_case(case)
    ns = env.bind()
    b = case["b"]
    if msg is None and case["secret"] is True:
        # a field wider than the configured bitlength, handed secret bits that encode a number outside it: rejected (today also
        # for numbers inside it - comparisons work at the global bitlength), and the rejection leaves the settings alone
        wide = ns.pk.PackIntMod((1 << (b + 3)) - 5)
        try:
            wide.unpack([ns.bo.PrivValBool(1) for _ in range(b + 3)], 0)
        except (AssertionError, ValueError):
            pass
    if msg is None and (ns.rt.bitlength != b or ns.fx.resolution != 0):
        return "after the packer calls runtime.bitlength is %r and the fixed-point resolution %r; the program had set %r and 0" % (ns.rt.bitlength, ns.fx.resolution, b)
    return msg


def _pack_case(case):
    s, v, secret, off, b, p = case["schema"], case["value"], case["secret"], case["offset"], case["b"], case["p"]
    ns = env.reset(p, b, 0)
    pkr = build(ns, s)
    if secret == "mixed":
        val = secretise(ns, s, v, iter(case["mask"] * 50))
    else:
        val = secretise(ns, s, v) if secret else v
    try:
        bits = pkr.pack(val)
        out_probe = pkr.unpack(([ns.bo.PrivValBool(0) for _ in range(off)] if secret is True else [1] * off) + bits, off)
    except Exception as e:
        # all leaves are inside the documented domain: an exception means the round trip fails
        return "pack/unpack of in-range value %r (secret=%s, offset %d) raised %s: %s" % (v, secret, off, type(e).__name__, e)
    ns = env.reset(p, b, 0)
    pkr = build(ns, s)
    if secret == "mixed":
        val = secretise(ns, s, v, iter(case["mask"] * 50))
    else:
        val = secretise(ns, s, v) if secret else v
    bits = pkr.pack(val)
    if len(bits) != bitlen_ref(s) or pkr.bitlen() != len(bits):
        return "bitlen() = %r, pack produced %d bits, schema needs %d" % (pkr.bitlen(), len(bits), bitlen_ref(s))
    if not secret and any(bb not in (0, 1) for bb in bits):
        return "pack of plain value produced non-bits %r" % (bits,)
    pad = [ns.bo.PrivValBool(0) for _ in range(off)] if secret is True else [1] * off
    out = pkr.unpack(pad + bits, off)
    got = plainify(ns, out)
    if got != v:
        return "unpack(pack(%r)) returned %r (secret=%s, offset %d)" % (v, got, secret, off)
    bad = r1cs.evaluate(ns.rec.snapshot())
    if bad:
        return "constraint #%d emitted by pack/unpack is violated by the recorded witness" % bad[0]
    if case.get("random_seed") is not None:
        # packer.random() promises a value of the schema: it must pack and come back unchanged
        import random
        random.seed(case["random_seed"])
        rv = pkr.random()
        try:
            back = plainify(ns, pkr.unpack(pkr.pack(rv), 0))
        except Exception as e:
            return "random() produced %r, which pack/unpack rejects with %s: %s" % (rv, type(e).__name__, e)
        if back != rv:
            return "random() produced %r, unpack(pack(.)) gives %r" % (rv, back)
    if case.get("grow") and s[0] in ("list", "rep") and not secret:
        # the record format gets another field AFTER it has been used (the program extends the list of packers it had handed to
        # PackList, or the inner record of a table): packing, the reported width and unpacking all follow the new layout
        inner = pkr if s[0] == "list" else pkr.packer
        if isinstance(inner, ns.pk.PackList):
            inner.lst.append(ns.pk.PackIntMod(11))
            v2 = (v + [7]) if s[0] == "list" else [row + [7] for row in v]
            bits2 = pkr.pack(v2)
            want_bits = bitlen_ref(s) + 4 * (1 if s[0] == "list" else s[2])
            if len(bits2) != want_bits or pkr.bitlen() != want_bits:
                return "after a field was appended to a record format already in use: pack gives %d bits, bitlen() says %d, the new layout needs %d" % (len(bits2), pkr.bitlen(), want_bits)
            back = plainify(ns, pkr.unpack([1] * off + bits2, off))
            if back != v2:
                return "after a field was appended to a record format already in use: unpack(pack(%r)) returned %r" % (v2, back)
    if case.get("broken") is not None:
        mode = case.get("broken_mode", "normal")
        try:
            # a plain value has no constraint behind it: rejection cannot depend on the error policy in force
            if mode == "ignore":
                ns.rt.ignore_errors(True)
                try:
                    got = pkr.pack(case["broken"])
                finally:
                    ns.rt.ignore_errors(False)
            elif mode == "false-guard":
                got = ns.rt.guarded(ns.rt.PrivVal(0))(lambda: pkr.pack(case["broken"]))()
            else:
                got = pkr.pack(case["broken"])
        except (ValueError, AssertionError, TypeError):
            return None
        return "plain out-of-range / non-integer value %r was packed without complaint%s (bits %r)" % (
            case["broken"], {"normal": "", "ignore": " while ignore_errors is set", "false-guard": " under a false guard"}[mode], plainify(ns, got))
    return None


def pack_shard(seed, n_examples):
    stats = core.Stats()

    @given(st.data())
    def test(data):
        draw = data.draw
        s = draw(schemas())
        b = max(draw(st.sampled_from([5, 6, 8, 16])), maxbits(s) + 2)     # secret unpack compares at the global bitlength
        case = {"part": "pack", "schema": s, "value": draw_value(draw, s), "secret": draw(st.sampled_from([True, False, "mixed"])),
                "mask": [draw(st.booleans()) for _ in range(6)],
                "offset": draw(st.integers(0, 3)), "b": b, "p": draw(st.sampled_from(["bn128", "bls12-381", "curve25519"]))}
        if draw(st.integers(0, 3)) == 0:
            case["random_seed"] = draw(st.integers(0, 1 << 30))
        case["grow"] = draw(st.booleans())
        if not case["secret"] and draw(st.booleans()):
            case["broken"] = break_value(draw, s, case["value"])
            case["broken_mode"] = draw(st.sampled_from(["normal", "ignore", "false-guard"]))
        from harness.ir import resolve_p
        case["p"] = resolve_p(case["p"])
        msg = pack_case(case)
        nt = depth(s) >= 2 and nonpow2(s)
        stats.case(case if nt else None, nt, ("mixed" if case["secret"] == "mixed" else "secret" if case["secret"] else "plain", "depth:%d" % depth(s),
                                              "broken:" + case.get("broken_mode", "") if case.get("broken") is not None else "roundtrip"))
        if msg:
            raise core.Violation(case, msg, "pack")

    v = core.drive(test, seed, n_examples)
    if v is not None:
        stats.violations.append({"case": v.case, "msg": v.msg, "key": v.key})
    return stats


def replay(case):
    part = case.get("part")
    if part == "pack":
        return pack_case(case)
    if part == "enforce":
        return c03.replay(case)
    st_ = widths_shard([] if case.get("large") else [case["b"]], case["p"])      # (the large-width part does not depend on bs)
    return "; ".join(v["msg"] for v in st_.violations) or None


def run(ctx):
    ctx.rule = RULE
    ctx.assumptions = ["recorder, R1CS evaluator and search engine", "PackIntMod moduli >= 2, non-empty lists, times >= 1 (DESIGN.md section 3)"]
    total = core.Stats()
    from harness.recorder import BN128
    if ctx.tier == "quick":
        wjobs = [dict(bs=[2, 3, 4], p=BN128), dict(bs=[2], p=67), dict(bs=[3], p=257)]
        ecfg = [(67, 2), (257, 3)]
        npack = 60
    else:
        wjobs = [dict(bs=[2, 3, 4, 5, 8], p=BN128), dict(bs=[2], p=67), dict(bs=[3], p=257), dict(bs=[4], p=1031), dict(bs=[5], p=4099)]
        ecfg = [(67, 2), (257, 3), (1031, 4)]
        npack = 3000
    total.merge_json(core.run_shards("harness.checks.c16", "widths_shard", wjobs).to_json())
    for p, b in ecfg:
        items = [(nm, n) for nm in ("to_bits(n)", "assert_positive(n)") for n in range(0, b + 3)]
        # unpacking secret bits declares a bounded integer: values >= mod (all-ones patterns included) must be unsatisfiable
        items += [(nm, m_) for nm in ("PackIntMod(m).unpack(LinComb bits)", "PackIntMod(m).unpack(pack(x))") for m_ in (1, 2, 3, 5, 6, 7, 8)]
        items += [("from_bits([x, y]).assert_positive(n)", 2), ("from_bits([x, y]).assert_positive(n)", 3), ("from_bits([x + y, y]).to_bits(n)", 2)]
        total.merge_json(core.run_shards("harness.checks.c16", "enforce_shard",
                                         [dict(items=items[i::8], p=p, b=b) for i in range(8)]).to_json())
    total.merge_json(core.run_shards("harness.checks.c16", "pack_shard",
                                     [dict(seed=ctx.seed * 1000 + i, n_examples=npack) for i in range(16)]).to_json())
    ctx.stats = total
