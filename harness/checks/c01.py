"""C01 completeness: the recorded witness satisfies every emitted constraint."""
from hypothesis import given, strategies as st

from harness import core, ir, r1cs
from harness.recorder import REAL_FIELDS

RULE = ("programs of 1-14 statements drawn model-guided over the public API (ops of LinComb, LinCombBool, "
        "LinCombFxp, Array, selection, hash gadgets, guarded regions with both guard values), error checking on; "
        "configuration = field (bn128, bls12-381, curve25519, small primes) x bitlength x resolution. "
        "Oracle: A*B-C == 0 mod p for every constraint, re-evaluated after every statement that returned. "
        "Non-trivial = at least one statement completed and at least one emitted constraint is truly quadratic "
        "(non-constant variables on both sides of the product); distinct by program digest.")


def quadratic(cons):
    for a, b, c in cons:
        if any(v != 0 and k for v, k in a.items()) and any(v != 0 and k for v, k in b.items()):
            return True
    return False


class Checker:
    def __init__(self):
        self.done = 0

    def __call__(self, m, stmt, out):
        rec = m.ns.rec
        if m.raised:
            return
        new = rec.cons[self.done:]
        bad = r1cs.evaluate(new, rec.vals, rec.P)
        if bad:
            i = self.done + bad[0]
            a, b, c = rec.cons[i]
            raise core.Violation(
                m.program(),
                "constraint #%d violated after %r: A=%r B=%r C=%r; A*B-C=%d mod p" % (
                    i, stmt, a, b, c,
                    (r1cs.lc_value(a, rec.vals, rec.P) * r1cs.lc_value(b, rec.vals, rec.P)
                     - r1cs.lc_value(c, rec.vals, rec.P)) % rec.P))
        self.done = len(rec.cons)


def shard(seed, n_examples, shrink=True):
    stats = core.Stats()

    @given(st.data())
    def test(data):
        cfg = ir.gen_cfg(data.draw, st)
        n = data.draw(st.integers(1, 14))
        chk = Checker()
        m, labels = ir.generate(data.draw, st, cfg, n, after=chk)
        rec = m.ns.rec
        completed = m.raised is None
        if completed:
            bad = r1cs.evaluate(rec.cons, rec.vals, rec.P)
            if bad:
                raise core.Violation(m.program(), "constraint #%d violated at end of run" % bad[0])
        nt = len(m.stmts) > (0 if completed else 1) and quadratic(rec.cons[:chk.done])
        lab = set(labels)
        lab.add("field:" + (str(cfg["p"]) if isinstance(cfg["p"], str) else "small"))
        lab.add("bitlength:%d" % cfg["b"])
        lab.add("run:completed" if completed else "run:raised:" + type(m.raised[1]).__name__)
        stats.case(m.program() if nt else None, nt, lab)

    v = core.drive(test, seed, n_examples, shrink=shrink)
    return core.finish_shard(stats, v, replay)


def replay(case):
    chk = Checker()
    try:
        m = ir.run_program(case, after=chk)
        rec = m.ns.rec
        if m.raised is None:
            bad = r1cs.evaluate(rec.cons, rec.vals, rec.P)
            if bad:
                return "constraint #%d violated at end of run" % bad[0]
    except core.Violation as v:
        return v.msg
    return None


def run(ctx):
    ctx.rule = RULE
    ctx.assumptions = ["recorder backend and R1CS evaluator are correct", "Hypothesis generator (seeded)",
                       "hash gadgets run with the toy 'nobackend' Poseidon parameter set here (real sets in C20)"]
    if ctx.tier == "quick":
        shards = [dict(seed=ctx.seed * 1000 + i, n_examples=60) for i in range(16)]
    else:
        shards = [dict(seed=ctx.seed * 1000 + 100 + i, n_examples=4000, shrink=True) for i in range(16)]
    ctx.stats = core.run_shards("harness.checks.c01", "shard", shards)
    ctx.stats.extra["shard_seeds"] = [s["seed"] for s in shards]
