"""C01 completeness: the recorded witness satisfies every emitted constraint."""
import os
import sys

from hypothesis import given, strategies as st

from harness import core, env, ir, r1cs
from harness.recorder import REAL_FIELDS

RULE = ("programs of 1-14 statements drawn model-guided over the public API (ops of LinComb, LinCombBool, "
        "LinCombFxp, Array, selection, hash gadgets, guarded regions with both guard values), error checking on; "
        "configuration = field (bn128, bls12-381, curve25519, small primes) x bitlength x resolution. "
        "Oracle: A*B-C == 0 mod p for every constraint, re-evaluated after every statement that returned. "
        "Non-trivial = at least one statement completed and at least one emitted constraint is truly quadratic "
        "(non-constant variables on both sides of the product); distinct by program digest. Plus a deterministic cell "
        "sweep: every (operation x operand-type combination) x a fixed pool of in/out-of-domain operands x guard modes "
        "(none, 0, 1, 1/0, 0/1, 0/0, 1/1).")
RULE += " Extensions (seeded rounds 10-15): deterministic chains of operation pairs that undo or reuse each other (ir.chain_programs), histories in which a refused call is caught and the program carries on, the long-array histories of C15 (31-257 elements), the repository's runnable example programs."



def quadratic(cons):
    for a, b, c in cons:
        if any(v != 0 and k for v, k in a.items()) and any(v != 0 and k for v, k in b.items()):
            return True
    return False


class Checker:
    def __init__(self):
        self.done = 0

    def __call__(self, m, stmt, out):
        rec = m.ns.rec
        if m.raised:
            return
        new = rec.cons[self.done:]
        bad = r1cs.evaluate(new, rec.vals, rec.P)
        if bad:
            i = self.done + bad[0]
            a, b, c = rec.cons[i]
            raise core.Violation(
                m.program(),
                "constraint #%d violated after %r: A=%r B=%r C=%r; A*B-C=%d mod p" % (
                    i, stmt, a, b, c,
                    (r1cs.lc_value(a, rec.vals, rec.P) * r1cs.lc_value(b, rec.vals, rec.P)
                     - r1cs.lc_value(c, rec.vals, rec.P)) % rec.P))
        self.done = len(rec.cons)


def shard(seed, n_examples, shrink=True):
    stats = core.Stats()

    @given(st.data())
    def test(data):
        cfg = ir.gen_cfg(data.draw, st)
        n = data.draw(st.integers(1, 14))
        chk = Checker()
        m, labels = ir.generate(data.draw, st, cfg, n, after=chk)
        rec = m.ns.rec
        completed = m.raised is None
        if completed:
            bad = r1cs.evaluate(rec.cons, rec.vals, rec.P)
            if bad:
                raise core.Violation(m.program(), "constraint #%d violated at end of run" % bad[0])
        nt = len(m.stmts) > (0 if completed else 1) and quadratic(rec.cons[:chk.done])
        lab = set(labels)
        lab.add("field:" + (str(cfg["p"]) if isinstance(cfg["p"], str) else "small"))
        lab.add("bitlength:%d" % cfg["b"])
        lab.add("run:completed" if completed else "run:raised:" + type(m.raised[1]).__name__)
        stats.case(m.program() if nt else None, nt, lab)

    v = core.drive(test, seed, n_examples, shrink=shrink)
    return core.finish_shard(stats, v, replay)


MODES = ["normal", "guard0", "guard1", "guard10", "guard01", "guard00", "guard11"]


def sweep_shard(cells, b, p):
    """cell sweep: every (operation x operand-type combination) x operand pool x guard mode, error checking on"""
    import itertools
    from harness import opgrid
    stats = core.Stats()
    found = {}
    lim = 1 << b
    ipool = [-lim - 1, -1, 0, 1, 2, 3, lim - 1, lim]
    for name, ts in cells:
        op = ir.OPS[name]
        pools = []
        for pos, t in enumerate(ts):
            if pos in op.params:
                pools.append([0, 1, b, b + 1])
            elif t == "B":
                pools.append([0, 1, 2])         # 2: a declared boolean holding garbage (only creatable where errors are suppressed)
            elif t == "b":
                pools.append([0, 1])
            elif t == "f":
                pools.append([["f", 3, 2], ["f", -1, 1], ["f", 2, 1], ["f", 1, 4]])
            else:
                pools.append(ipool)
        for vals in itertools.product(*pools):
            for mode in MODES:
                args = [(t, "priv" if i % 2 == 0 else "pub", v) for i, (t, v) in enumerate(zip(ts, vals))]
                prog = opgrid.single({"p": p, "b": b, "r": 2, "ignore": False}, name, args, mode)
                chk = Checker()
                try:
                    m = ir.run_program(prog, after=chk)
                    ok = m.raised is None
                    nt = ok and quadratic(m.ns.rec.cons)
                except core.Violation as v:
                    key = "%s.%s.%s" % (name, ts, mode)
                    found.setdefault(key, {"case": prog, "msg": v.msg, "key": key})
                    ok, nt = True, True
                stats.case([name, ts, [str(v) for v in vals], mode], nt,
                           ("mode:" + mode, "op:" + name, "run:completed" if ok else "run:raised"), sample_cap=1)
                # the result of the operation is USED inside the same guarded region (product, comparison):
                # hints of the consumers are computed from the reported value, so value and wire must agree
                if mode != "normal" and ok and len(m.vals) > len(prog["stmts"]) - 1 + 0:
                    ridx = prog["first_result"]
                    if ridx < len(m.vals) and m.types[ridx] in "IBF":
                        prog2 = opgrid.single({"p": p, "b": b, "r": 2, "ignore": False}, name, args, mode)
                        body = prog2["stmts"][-1]
                        while body[0] == "guard" and body[3] and body[3][0][0] == "guard":
                            body = body[3][0]
                        body[3].append(["op", "mul", [ridx, ridx]])
                        body[3].append(["op", "eq", [ridx, 0]])
                        chk2 = Checker()
                        try:
                            m2 = ir.run_program(prog2, after=chk2)
                            stats.case([name, ts, [str(v) for v in vals], mode, "used"], m2.raised is None, ("mode:" + mode + "+used",), sample_cap=1)
                        except core.Violation as v:
                            key = "%s.%s.%s.used" % (name, ts, mode)
                            found.setdefault(key, {"case": prog2, "msg": v.msg, "key": key})
    stats.violations = list(found.values())
    return stats


def fuzz_campaign(seed, runs, jobs=16):
    """thorough tier only: coverage-guided campaign (atheris/libFuzzer) over the same generator and oracles
    (C01 + C04). Returns (stats, note). Skipped with a note when atheris is not installed under .deps."""
    import json, os, shutil, subprocess, sys, tempfile
    deps = os.path.join(core.ROOT, ".deps")
    stats = core.Stats()
    if not os.path.isdir(os.path.join(deps, "atheris")):
        return stats, "atheris not installed under .deps (setup.sh installs it from the local wheelhouse when present): campaign skipped"
    tmp = tempfile.mkdtemp(prefix="verif-c01-fuzz-")
    try:
        procs = []
        for k in range(jobs):
            corpus = os.path.join(tmp, "corpus%d" % k)
            os.makedirs(corpus)
            out = os.path.join(tmp, "out%d.json" % k)
            envv = dict(os.environ)
            envv["PYTHONPATH"] = os.pathsep.join([core.ROOT, os.environ.get("VERIF_REPO", "/repo"), deps]) + core.COVPATH
            procs.append((out, subprocess.Popen(
                [sys.executable, "-m", "harness.fuzz_c01", out, "-runs=%d" % runs, "-seed=%d" % (seed * 100 + k + 1),
                 "-max_len=2048", "-len_control=0", "-artifact_prefix=" + os.path.join(tmp, "artifact%d-" % k), corpus],
                cwd=core.ROOT, env=envv, stdout=subprocess.DEVNULL, stderr=open(out + ".stderr", "wb"))))
        execs = 0
        for out, pr in procs:
            try:
                pr.wait(timeout=3600)
            except subprocess.TimeoutExpired:
                pr.kill()
                stats.inconclusive["fuzz-timeout"] += 1
                continue
            viol = os.path.exists(out) and json.load(open(out)).get("violation")
            if pr.returncode != 0 and not viol:
                # the target ended on something that is not a violation of the property (an exception of the harness itself,
                # memory, a signal): a harness error, never silence
                tail = open(out + ".stderr", "rb").read()[-1500:].decode("utf-8", "replace")
                raise core.HarnessError("atheris process ended with exit code %s without reporting a violation:\n%s" % (pr.returncode, tail))
            if os.path.exists(out):
                j = json.load(open(out))
                execs += j["execs"]
                stats.evaluations += j["execs"]
                stats.nontrivial.update(j["nontrivial"])
                for l, n in j["labels"].items():
                    stats.labels["fuzz:" + l] += n
                if j.get("violation"):
                    stats.violations.append(j["violation"])
        return stats, "atheris campaign: %d processes x %d runs, %d executions" % (jobs, runs, execs)
    finally:
        shutil.rmtree(tmp, ignore_errors=True)


def chain_shard(b, p):
    """deterministic chains (ir.chain_programs): outputs of one operation fed to the next together with that operation's operands"""
    stats = core.Stats()
    found = {}
    for prog in ir.chain_programs(b, p):
        chk = Checker()
        key = "chain." + "-".join(s_[1] for s_ in prog["stmts"] if s_[0] == "op")
        try:
            m = ir.run_program(prog, after=chk)
            if m.raised is None:
                bad = r1cs.evaluate(m.ns.rec.cons, m.ns.rec.vals, m.ns.rec.P)
                if bad:
                    found.setdefault(key, {"case": prog, "key": key, "msg": "constraint #%d violated at the end of the chain %s" % (bad[0], key)})
        except core.Violation as vi:
            found.setdefault(key, {"case": prog, "msg": vi.msg, "key": key})
        stats.case(prog, True, ("chain",), sample_cap=1)
    stats.violations = list(found.values())
    return stats


def failure_shard(b, p):
    """histories with a failure in them: a call the library refuses (division by zero, failed assertion, unsupported operand,
    width / index out of range, bad guard ...) is caught by the program, which then goes on with valid operations; the run
    ends normally, so the recorded witness satisfies every constraint emitted - by the refused call as well"""
    stats = core.Stats()
    found = {}
    for t, vals in (("I", [-3, 0, 1, 5]), ("B", [0, 1]), ("F", [-6, 0, 3, 8])):
        for v in vals:
            for k in range(16):
                for follow in (["op", "mul", [0, 0]], ["op", "lt", [0, 0]], ["op", "add", [0, 0]]):
                    prog = {"cfg": {"p": p, "b": b, "r": 2, "ignore": False}, "stmts": [["in", "priv", t, v], ["fail", k, 0], follow, ["fail", k + 5, 0], follow]}
                    chk = Checker()
                    key = "refused-call-%d.%s" % (k, t)
                    try:
                        m = ir.run_program(prog, after=chk)
                        if m.raised is None:
                            bad = r1cs.evaluate(m.ns.rec.cons, m.ns.rec.vals, m.ns.rec.P)
                            if bad:
                                found.setdefault(key, {"case": prog, "key": key, "msg": "constraint #%d is violated at the end of a run in which a refused call (kind %d on a %s operand of value %r) was caught and the program carried on" % (bad[0], k, t, v)})
                    except core.Violation as vi:
                        found.setdefault(key, {"case": prog, "msg": vi.msg, "key": key})
                    stats.case(prog, True, ("history-with-a-refused-call",), sample_cap=1)
    stats.violations = list(found.values())
    return stats


EXAMPLES = [("compare.py", []), ("cube.py", ["3"]), ("cube.py", ["-7"]), ("factorial.py", []), ("test2.py", []), ("testarray.py", []), ("bench.py", [])]
# (the other example scripts are written for an older API - pysnark.hash, assert_bool, _ifelse - or need scipy / libsnark / oblif)


def examples_shard():
    """the repository's own example programs that run on this tree (multi-step computations written by the authors): traced on the
    recorder, they finish and the recorded witness satisfies every constraint"""
    import contextlib, io, runpy
    from harness import backends
    stats = core.Stats()
    for name, argv in EXAMPLES:
        path = os.path.join(backends.REPO, "examples", name)
        case = {"part": "example", "name": name, "argv": argv}
        if not os.path.exists(path):
            stats.inconclusive["example-missing"] += 1
            continue
        ns = env.reset(ir.resolve_p("bn128"), 16, 8)
        ns.rt.autoprove = False
        old_argv, old_cwd = sys.argv, os.getcwd()
        sys.argv = [path] + list(argv)
        os.chdir(os.path.dirname(path))
        msg = None
        try:
            with contextlib.redirect_stdout(io.StringIO()), contextlib.redirect_stderr(io.StringIO()):
                runpy.run_path(path, run_name="__main__")
        except SystemExit:
            pass
        except Exception as e:
            msg = "examples/%s %s raised %s: %s" % (name, " ".join(argv), type(e).__name__, e)
        finally:
            sys.argv = old_argv
            os.chdir(old_cwd)
        if msg is None:
            bad = r1cs.evaluate(ns.rec.cons, ns.rec.vals, ns.rec.P)
            if bad:
                msg = "examples/%s %s: constraint #%d of %d is violated by the recorded witness" % (name, " ".join(argv), bad[0], len(ns.rec.cons))
        stats.case(case, True, ("example:" + name,))
        if msg:
            stats.violations.append({"case": case, "msg": msg, "key": "example." + name})
    return stats


def replay(case):
    if case.get("part") == "example":
        st_ = examples_shard()
        return "; ".join(v["msg"] for v in st_.violations if v["case"]["name"] == case["name"]) or None
    if case.get("part") == "history":
        from harness.checks import c15
        return c15.replay(case)
    chk = Checker()
    try:
        m = ir.run_program(case, after=chk)
        rec = m.ns.rec
        if m.raised is None:
            bad = r1cs.evaluate(rec.cons, rec.vals, rec.P)
            if bad:
                return "constraint #%d violated at end of run" % bad[0]
    except core.Violation as v:
        return v.msg
    return None


def run(ctx):
    ctx.rule = RULE
    ctx.assumptions = ["recorder backend and R1CS evaluator are correct", "Hypothesis generator (seeded)",
                       "hash gadgets run with the toy 'nobackend' Poseidon parameter set here (real sets in C20)"]
    if ctx.tier == "quick":
        shards = [dict(seed=ctx.seed * 1000 + i, n_examples=250) for i in range(16)]
    else:
        shards = [dict(seed=ctx.seed * 1000 + 100 + i, n_examples=4000, shrink=True) for i in range(16)]
    from harness import opgrid
    cells = []
    for name in ir.OPS:
        for ts in opgrid.type_combos(name):
            if any(t in "LA" for t in ts) or len(ts) > 3:
                continue
            cells.append((name, "".join(ts)))
    grids = [(3, "bn128")] if ctx.tier == "quick" else [(2, 67), (3, "bn128"), (4, "bls12-381"), (8, "curve25519")]
    total = core.Stats()
    for b, p in grids:
        total.merge_json(core.run_shards("harness.checks.c01", "sweep_shard",
                                         [dict(cells=cells[i::16], b=b, p=p) for i in range(16)]).to_json())
    total.merge_json(core.run_shards("harness.checks.c01", "shard", shards).to_json())
    total.extra["shard_seeds"] = [s["seed"] for s in shards]
    total.extra["cell_sweep"] = {"cells": len(cells), "modes": MODES, "grids": [list(g) for g in grids]}
    total.merge_json(core.run_shards_optimised("harness.checks.c01", "shard", [dict(seed=ctx.seed * 1000 + 800 + i, n_examples=60) for i in range(4)]).to_json())
    total.merge_json(core.run_shards("harness.checks.c01", "failure_shard", [dict(b=b_, p=p_) for b_, p_ in ((3, "bn128"), (8, "bls12-381"))]).to_json())
    total.merge_json(core.run_shards("harness.checks.c01", "chain_shard", [dict(b=8, p="bn128"), dict(b=16, p="bls12-381")]).to_json())
    total.merge_json(core.run_shards("harness.checks.c01", "examples_shard", [dict(), dict()][:1]).to_json())
    # scale: completeness of secret-index reads and writes on arrays of 31 ... 257 elements and 65x2 / 2x65 matrices (the histories
    # of C15's long-array part; here only "the recorded witness satisfies every emitted constraint" is at stake)
    from harness.checks import c15
    big = c15.large_cases(ctx.tier) + [c for c in c15.large_cases("thorough") if c["shape"] in ([128], [130], [257])]
    total.merge_json(core.run_shards("harness.checks.c15", "large_shard", [dict(cases=big[i::8]) for i in range(8)]).to_json())
    if ctx.tier == "thorough":
        fz, note = fuzz_campaign(ctx.seed, 20000)
        total.merge_json(fz.to_json())
        total.extra["coverage_guided"] = note
    ctx.stats = total
