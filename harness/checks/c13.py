"""C13: backend linear combinations are a faithful immutable algebra over the curve's scalar field."""
import copy
import sys
import os
import tempfile

from hypothesis import given, strategies as st

from harness import core, backends, ir

RULE = ("per proof-producing backend configuration (snarkjs; zkinterface with bn128, bellman/bls12-381, "
        "bulletproofs/curve25519 through their own modules; qaptools) loaded directly from /repo: expression trees "
        "(Hypothesis recursive draws) over privval/pubval/one/zero leaves with + - neg and scaling by integers from "
        "{0, +-1, +-small, around p, > p, > 2^256}, on random assignments incl. negative and unreduced values. Oracle: "
        "the value of the resulting object - decoded by an evaluator written against the representation (dict "
        "var->coeff with the pub/priv index convention; (coeff, wire name) list against the wire file) - equals the tree "
        "evaluated in F_p; deep snapshots of every operand before/after every operation are equal; get_modulus() equals "
        "the scalar-field order recomputed from the curve definition and passes Miller-Rabin; fieldinverse(x)*x == 1 "
        "(mod p) for x != 0 (mod p) incl. negative and unreduced x, and raises for x == 0 (mod p). Non-trivial = tree "
        "depth >= 2 with a repeated variable and a scalar outside [0,p), or a long combination (sums of 12-60 terms over up to 48 "
        "variables combined so that some wires cancel exactly and others recur); distinct by case digest. libsnark's native "
        "class is not available offline and is NOT covered.")
RULE += " Extensions (seeded rounds 10-15): boolean scalars (content and text as for 1 / 0), long combinations scaled repeatedly and built without looking at intermediate objects, requests for another field after values exist (refused means nothing changed). Scalar sweep: scaling by every k, -k, p-k for k = 1..10001 (thorough 70001) and around the powers of two and ten above; table-boundary constants among the generated scalars."

CONFIGS = ["snarkjs", "zkinterface", "zkifbellman", "zkifbulletproofs", "qaptools"]


def rep(lc):
    """plain-data snapshot of a backend LC object"""
    if hasattr(lc, "sig"):
        return copy.deepcopy(lc.sig)
    return copy.deepcopy(lc.lc)


class Ctx:
    def __init__(self, name):
        self.name = name
        self.tmp = tempfile.mkdtemp(prefix="verif-c13-")
        self.old = os.getcwd()
        os.chdir(self.tmp)
        self.mod = backends.load(name)
        self.p = backends.FIELDS[name]

    def close(self):
        os.chdir(self.old)
        import shutil
        shutil.rmtree(self.tmp, ignore_errors=True)

    def value(self, lc, vals):
        """evaluate a backend LC through its representation"""
        p = self.p
        if self.name == "qaptools":
            tot = 0
            for c, nm in lc.sig:
                if nm.endswith("/onex") or nm.endswith("/one"):
                    tot += c
                else:
                    tot += c * self.wires[nm]
            return tot % p
        sm = backends.state_module(self.name, self.mod)
        tot = 0
        for k, c in lc.lc.items():
            if k == 0:
                tot += c
            elif k > 0:
                tot += c * sm.pubvals[k - 1]
            else:
                tot += c * sm.privvals[-k - 1]
        return tot % p

    def read_wires(self):
        self.wires = {}
        if self.name == "qaptools":
            for fn in ("pysnark_wires",):
                if os.path.exists(fn):
                    for ln in open(fn):
                        if ln.startswith("#") or ":" not in ln:
                            continue
                        nm, v = ln.split(":")
                        self.wires[nm.strip()] = int(v)


def apply_op(t, a, b, style):
    """a + b / a - b / a * k / -a, written as an operator or called as the special method (an operation table
    OPS['add'](x, y) = Class.__add__, a bound method handed to map(), the operator module)"""
    import operator
    if style == "dunder":
        cls = type(a)
        return {"add": cls.__add__, "sub": cls.__sub__, "mul": cls.__mul__}[t](a, b) if t != "neg" else cls.__neg__(a)
    if style == "bound":
        return {"add": a.__add__, "sub": a.__sub__, "mul": a.__mul__}[t](b) if t != "neg" else a.__neg__()
    if style == "operator":
        return {"add": operator.add, "sub": operator.sub, "mul": operator.mul}[t](a, b) if t != "neg" else operator.neg(a)
    return a + b if t == "add" else a - b if t == "sub" else a * b if t == "mul" else -a


def build_checked(tree, cx, vars_, errors, style="op"):
    """build with immutability snapshots around every operation"""
    mod = cx.mod
    t = tree[0]
    if t == "var":
        return vars_[tree[1]]
    if t == "one":
        return mod.one()
    if t == "zero":
        return mod.zero()
    if t in ("add", "sub"):
        a = build_checked(tree[1], cx, vars_, errors, style)
        b = build_checked(tree[2], cx, vars_, errors, style)
        ra, rb = rep(a), rep(b)
        if style == "dunder":
            # called right here: the operand objects are referenced by this frame's variables only, as in OPS['add'](x, y)
            r = type(a).__add__(a, b) if t == "add" else type(a).__sub__(a, b)
        else:
            r = apply_op(t, a, b, style)
        if rep(a) != ra or rep(b) != rb:
            errors.append("%s altered an operand" % t)
        if r is a or r is b:
            errors.append("%s returned one of its operands" % t) if (rep(r) != ra and rep(r) != rb) else None
        return r
    a = build_checked(tree[1], cx, vars_, errors, style)
    ra = rep(a)
    if style == "dunder":
        r = type(a).__neg__(a) if t == "neg" else type(a).__mul__(a, tree[2])
    else:
        r = apply_op(t, a, tree[2] if t == "mul" else None, style)
    if rep(a) != ra:
        errors.append("%s altered its operand" % t)
    if t == "mul" and isinstance(tree[2], bool):
        # Python's True / False are the integers 1 / 0 (the runtime hands them through as scalars: x * (n > 3)): the product is
        # the same object content, and the same text where the backend writes its combinations out as text
        r1 = a * int(tree[2])
        if rep(r) != rep(r1) or (type(r).__str__ is not object.__str__ and str(r) != str(r1)):
            errors.append("scaling by %r gives %r (text %r), scaling by %d gives %r (text %r)" % (tree[2], rep(r), str(r)[:80], int(tree[2]), rep(r1), str(r1)[:80]))
    return r


def build_plain(tree, cx, vars_):
    """the same construction with no look at any intermediate object (a look may itself change a lazily kept object)"""
    t = tree[0]
    if t == "var":
        return vars_[tree[1]]
    if t == "one":
        return cx.mod.one()
    if t == "zero":
        return cx.mod.zero()
    if t in ("add", "sub"):
        a = build_plain(tree[1], cx, vars_)
        b = build_plain(tree[2], cx, vars_)
        return a + b if t == "add" else a - b
    a = build_plain(tree[1], cx, vars_)
    return -a if t == "neg" else a * tree[2]


def depth(t):
    if t[0] in ("var", "one", "zero"):
        return 0
    return 1 + max(depth(x) for x in t[1:] if isinstance(x, list))


def vars_in(t, acc):
    if t[0] == "var":
        acc.append(t[1])
    for x in t[1:]:
        if isinstance(x, list):
            vars_in(x, acc)
    return acc


def scalars_in(t, acc):
    if t[0] == "mul":
        acc.append(t[2])
    for x in t[1:]:
        if isinstance(x, list):
            scalars_in(x, acc)
    return acc


def judge(cx, case):
    p = cx.p
    mod = cx.mod
    if cx.name != "qaptools":
        backends.reset_state(cx.name, mod)
    vars_ = []
    for kind, v in case["vars"]:
        vars_.append(mod.privval(v) if kind == "priv" else mod.pubval(v))
    cx.read_wires()
    errors = []
    before = [rep(v) for v in vars_]
    if case.get("unobserved"):
        lc = build_plain(case["tree"], cx, vars_)        # operands are looked at again only after the result was evaluated
    else:
        lc = build_checked(case["tree"], cx, vars_, errors, case.get("style", "op"))
    want = backends.eval_tree(case["tree"], [v for _, v in case["vars"]], p)
    got = cx.value(lc, None)
    if [rep(v) for v in vars_] != before:
        errors.append("a variable's linear combination was altered by later operations")
    if errors:
        return errors[0]
    if got != want:
        return "tree %r on assignment %r evaluates to %d through the backend object, %d in the field" % (case["tree"], case["vars"], got, want)
    return None


def algebra_shard(name, seed, n_examples):
    stats = core.Stats()
    cx = Ctx(name)
    try:
        p = cx.p
        # modulus and inverse
        m = cx.mod.get_modulus()
        if m != backends.curve_order(name):
            stats.violations.append({"case": {"config": name, "part": "modulus"}, "key": "modulus",
                                     "msg": "%s reports modulus %d, the scalar-field order of its curve is %d" % (name, m, backends.curve_order(name))})
        elif not backends.miller_rabin(m):
            stats.violations.append({"case": {"config": name, "part": "modulus"}, "key": "modulus", "msg": "%s modulus is not prime" % name})
        stats.case({"config": name, "part": "modulus", "value": str(m)}, True, ("modulus:" + name,))

        @given(st.data())
        def test(data):
            draw = data.draw
            if draw(st.integers(0, 4)) == 0:
                x = draw(st.one_of(st.integers(-10, 10), st.integers(-(1 << 300), 1 << 300), st.integers(0, p - 1),
                                   st.sampled_from([p, -p, 2 * p, p - 1, p + 1, 1 - p, 0])))
                case = {"config": name, "part": "inverse", "x": x, "deep": draw(st.booleans())}
                msg = inverse_case(cx, x, case["deep"])
                stats.case(case, x % p != 0 and not 0 < x < p, ("inverse",), sample_cap=2)
                if msg:
                    raise core.Violation(case, msg, "inverse")
                return
            wide = draw(st.integers(0, 4)) == 0
            tr = draw(backends.trace_strategy(st, p, max_vars=4, max_cons=0))
            vars_ = [(c[0], c[1]) for c in tr]
            if wide:
                vars_ += [(draw(st.sampled_from(["priv", "pub"])), draw(st.integers(-3, 9))) for _ in range(draw(st.integers(8, 44)))]
            nv = len(vars_)

            def fold(terms):
                t = ["mul", ["var", terms[0][0]], terms[0][1]]
                for v_, c_ in terms[1:]:
                    t = ["add", t, ["mul", ["var", v_], c_]]
                return t

            def wide_tree():
                # long combinations (bit decompositions, inner products: 20-60 terms) combined so that some wires cancel
                # exactly and others occur again afterwards - merging / normalising code paths only long operands reach
                coef = st.one_of(st.integers(-3, 3), st.sampled_from([1, 2, 4, 8, p - 1, p - 2, 1 << 20]))
                n1 = draw(st.integers(12, 50))
                a = [(draw(st.integers(0, nv - 1)), draw(coef)) for _ in range(n1)]
                if draw(st.integers(0, 2)) == 0:
                    # two sums over exactly the same set of variables, accumulated in different orders (x0..xn and xn..x0)
                    vs_ = draw(st.permutations(list(range(nv))))[:draw(st.integers(8, nv))]
                    a = [(v_, draw(coef)) for v_ in vs_]
                    b = [(v_, draw(coef)) for v_ in draw(st.permutations(vs_))]
                    withone = draw(st.booleans())
                    ta, tb = fold(a), fold(b)
                    if withone:
                        ta, tb = ["add", ta, ["one"]], ["add", ["mul", ["one"], draw(coef)], tb]
                    return [draw(st.sampled_from(["add", "sub"])), ta, tb]
                b = []
                for v_, c_ in draw(st.permutations(a))[:draw(st.integers(1, len(a)))]:
                    k_ = draw(st.integers(0, 3))
                    b.append((v_, -c_ if k_ == 0 else p - c_ if k_ == 1 else c_ if k_ == 2 else draw(coef)))
                b += [(draw(st.integers(0, nv - 1)), draw(coef)) for _ in range(draw(st.integers(0, 20)))]
                t = [draw(st.sampled_from(["add", "sub"])), fold(a), fold(b)]
                if draw(st.booleans()):
                    t = [draw(st.sampled_from(["add", "sub"])), fold(draw(st.permutations(a))[:draw(st.integers(1, len(a)))]), t]
                return t

            def tree(dep):
                k = draw(st.integers(0, 8 if dep < 4 else 2))
                if k <= 2:
                    return ["var", draw(st.integers(0, nv - 1))]
                if k == 3:
                    return draw(st.sampled_from([["one"], ["zero"]]))
                if k <= 5:
                    return [draw(st.sampled_from(["add", "sub"])), tree(dep + 1), tree(dep + 1)]
                if k == 6:
                    return ["neg", tree(dep + 1)]
                return ["mul", tree(dep + 1), draw(st.one_of(st.integers(-3, 3), st.integers(0, p - 1), st.booleans(),
                                                             st.sampled_from([0, -1, p, p + 1, -p, 2 * p + 1, 1 << 256, (1 << 300) + 1, -(1 << 257)]),
                                                             st.sampled_from(ir.MAGIC).flatmap(lambda v_: st.sampled_from([v_, -v_]))))]
            t = wide_tree() if wide else tree(0)
            if wide:
                # a long combination scaled / negated several times in a row, with nothing reading the intermediate results
                sc = st.one_of(st.integers(-3, 3), st.sampled_from([0, 2, 3, 5, p - 1, p + 2]))
                k_ = draw(st.integers(0, 5))
                if k_ == 1:
                    t = ["mul", ["mul", t, draw(sc)], draw(sc)]
                elif k_ == 2:
                    t = ["neg", ["mul", t, draw(sc)]]
                elif k_ == 3:
                    t = ["sub", t, ["mul", ["mul", ["mul", t, draw(sc)], draw(sc)], draw(sc)]]
                elif k_ == 4:
                    t = ["neg", ["neg", t]]
            case = {"config": name, "part": "algebra", "vars": vars_, "tree": t, "unobserved": draw(st.booleans()), "style": draw(st.sampled_from(["op", "op", "dunder", "bound", "operator"]))}
            vs = vars_in(t, [])
            nt = depth(t) >= 2 and len(vs) != len(set(vs)) and any(not 0 <= s < p for s in scalars_in(t, []))
            msg = judge(cx, case)
            stats.case(case if nt or wide else None, nt or wide, ("algebra:" + name,) + (("long-combination",) if wide else ()))
            if msg:
                raise core.Violation(case, msg, "algebra")
        v = core.drive(test, seed, n_examples)
        if v is not None:
            stats.violations.append({"case": v.case, "msg": v.msg, "key": v.key})
    finally:
        cx.close()
    return stats


HEADROOM = 60      # interpreter frames left for the library when it is called from deep inside the user's own recursion


def call_deep(fn, *a):
    """call fn(*a) with only HEADROOM frames left below the recursion limit (a recursive user function several hundred
    frames deep that divides, compares or asserts non-zero)"""
    import sys
    depth = 0
    f = sys._getframe()
    while f is not None:
        depth += 1
        f = f.f_back

    def down(k):
        if k <= 0:
            return fn(*a)
        return down(k - 1)
    return down(sys.getrecursionlimit() - depth - HEADROOM - 2)


def inverse_case(cx, x, deep=False):
    p = cx.p
    try:
        y = call_deep(cx.mod.fieldinverse, x) if deep else cx.mod.fieldinverse(x)
    except ZeroDivisionError:
        if x % p == 0:
            return None
        return "fieldinverse(%d) raised ZeroDivisionError although %d != 0 mod p" % (x, x)
    except Exception as e:
        return "fieldinverse(%d) raised %s: %s" % (x, type(e).__name__, e)
    if x % p == 0:
        return "fieldinverse(%d) returned %r although the argument is 0 mod p" % (x, y)
    if not isinstance(y, int) or (y * x) % p != 1:
        return "fieldinverse(%d) returned %r: not the inverse modulo p" % (x, y)
    return None


def replay(case):
    if case.get("part") == "setmod":
        st_ = setmod_shard(case["config"])
        return "; ".join(v["msg"] for v in st_.violations) or None
    cx = Ctx(case["config"])
    try:
        if case["part"] == "inverse":
            return inverse_case(cx, case["x"], case.get("deep", False))
        if case["part"] == "modulus":
            m = cx.mod.get_modulus()
            return None if m == backends.curve_order(case["config"]) and backends.miller_rabin(m) else "modulus wrong"
        case = dict(case, vars=[tuple(v) for v in case["vars"]])
        return judge(cx, case)
    finally:
        cx.close()


def setmod_shard(name):
    """A history with a refusal in it (zkinterface family): values exist, then the program asks for another field - by calling
    set_modulus or by importing a derived module - and catches a refusal if there is one. Either the change took effect (modulus
    and inverses are the new field's) or it was refused and NOTHING changed; a refusal that leaves the new modulus behind makes
    every later inverse wrong."""
    stats = core.Stats()
    cx = Ctx(name)
    try:
        mod = cx.mod
        sm = backends.state_module(name, mod)
        for how in ("set_modulus", "import-derived"):
            backends.reset_state(name, mod)
            mod.privval(3)
            mod.pubval(5)
            mod.add_constraint(mod.privval(2), mod.pubval(4), mod.privval(8))
            old = mod.get_modulus()
            other = backends.FIELDS["zkifbellman"] if old != backends.FIELDS["zkifbellman"] else backends.FIELDS["zkifbulletproofs"]
            case = {"config": name, "part": "setmod", "how": how}
            refused = None
            try:
                if how == "set_modulus":
                    sm.set_modulus(other)
                else:
                    import importlib
                    target = "pysnark.zkinterface.backendbellman" if other == backends.FIELDS["zkifbellman"] else "pysnark.zkinterface.backendbulletproofs"
                    sys.modules.pop(target, None)
                    importlib.import_module(target)
            except Exception as e:
                refused = e
            now = mod.get_modulus()
            stats.case(case, True, ("field-change:" + ("refused" if refused is not None else "accepted"),))
            msg = None
            if refused is not None and now != old:
                msg = "the request for another field (%s) was refused with %s, yet get_modulus() now reports %d instead of %d" % (how, type(refused).__name__, now, old)
            elif refused is None and now not in (old, other):
                msg = "after the request for another field get_modulus() reports %d" % now
            elif any((mod.fieldinverse(x) * x) % now != 1 for x in (3, -3, now + 2, -5 * now + 11)):
                msg = "after the %s request for another field fieldinverse no longer inverts modulo get_modulus()" % ("refused" if refused is not None else "accepted")
            if msg:
                stats.violations.append({"case": case, "msg": msg, "key": "setmod"})
                break
            sm.privvals[:] = []
            sm.pubvals[:] = []
            sm.constraints[:] = []
            try:
                sm.set_modulus(old)
            except Exception:
                pass
    finally:
        cx.close()
    return stats


def sweep_shard(name, n):
    """scaling by every k, -k, p - k for k = 1..n and around the powers of two and ten above n (round numbers are where tables of
    ready-made small coefficients end), in several trees per block of scalars"""
    stats = core.Stats()
    cx = Ctx(name)
    try:
        p = cx.p
        ks = backends.sweep_scalars(n)
        B = 25
        for i in range(0, len(ks), B):
            blk = ks[i:i + B]
            tree = ["zero"]
            for j, k in enumerate(blk):
                # k * x_j  -  (-k) * 1  +  (p - k) * x_{j+1}, scaled once more by k in every third term
                term = ["add", ["mul", ["var", j % 3], k], ["sub", ["mul", ["var", (j + 1) % 3], p - k], ["mul", ["one"], -k]]]
                if j % 3 == 0:
                    term = ["mul", ["add", term, ["var", 2]], k]
                tree = ["add", tree, term] if j % 2 else ["sub", term, tree]
            for style, unobs in (("op", False), ("dunder", True)):
                case = {"config": name, "part": "algebra", "vars": [("priv", 3), ("pub", 5 + i), ("priv", -7)], "tree": tree, "unobserved": unobs, "style": style}
                msg = judge(cx, case)
                stats.case(case, True, ("scalar-sweep:" + name,), sample_cap=1)
                if msg:
                    stats.violations.append({"case": case, "msg": "scalars %d..%d: %s" % (blk[0], blk[-1], msg[:600]), "key": "sweep"})
                    return stats
    finally:
        cx.close()
    return stats


def run(ctx):
    ctx.rule = RULE
    ctx.assumptions = ["representation evaluators in harness/checks/c13.py", "flatbuffers stand-in only needed to import the zkinterface modules",
                       "libsnark (native C++ linear combinations) not available: not covered"]
    n = 300 if ctx.tier == "quick" else 4000
    reps = 3 if ctx.tier == "quick" else 3
    jobs = [dict(name=c, seed=ctx.seed * 1000 + 17 * i + k, n_examples=n) for i, c in enumerate(CONFIGS) for k in range(reps)]
    ctx.stats = core.run_shards("harness.checks.c13", "algebra_shard", jobs)
    ctx.stats.merge_json(core.run_shards("harness.checks.c13", "setmod_shard", [dict(name=c) for c in CONFIGS if c.startswith("zk")] + [dict(name="zkinterface")]).to_json())
    ctx.stats.merge_json(core.run_shards("harness.checks.c13", "sweep_shard", [dict(name=c, n=10001 if ctx.tier == "quick" else 70001) for c in CONFIGS]).to_json())
    ctx.stats.extra["configs"] = CONFIGS
