"""C17: a @snark function exposes exactly its arguments and results as public values."""
import json
from fractions import Fraction

from hypothesis import given, strategies as st

from harness import core, env, r1cs, ir

RULE = ("sequences of 1-4 calls of @snark-wrapped functions in one run. Arguments: nested lists/tuples/dicts of int, "
        "float (dyadic), bool and pass-through objects (str, None); bodies: expression trees over the argument leaves "
        "(+, -, *, integer comparisons, constants) returning nested structures that mix secret ints, fixed-point values, "
        "booleans, plain constants and pass-through objects. Oracle on the recorder's ordered list of public variables: "
        "the public variables created by a call are exactly the numeric argument leaves in traversal order (ints as "
        "given, floats scaled by 2^resolution, bools as 0/1) followed by the secret results in traversal order, nothing "
        "else; every output variable is uniquely determined by the other wires (search with only that wire freed: one "
        "solution) and equals the result; the returned structure equals what the undecorated body returns on the plain "
        "arguments; all constraints satisfied; keyword arguments raise ValueError and leave no trace. Non-trivial = "
        ">= 2 numeric leaves of different types and >= 2 secret results, or >= 2 calls; distinct by case digest.")
RULE += " Extensions (seeded rounds 10-15): default parameters left alone, structures nested up to 2000 levels or with little stack left, one decorated function for all calls with refused calls in between, small constant powers as results."


R = 8   # fixed-point resolution used by the checks (library default)


def arg_structs():
    leaf = st.one_of(
        st.integers(-9, 9).map(lambda v: ["int", v]),
        st.integers(-12, 12).map(lambda v: ["float", v]),      # value v/4
        st.booleans().map(lambda v: ["bool", v]),
        st.sampled_from([["pass", "s"], ["pass", None]]),
    )
    return st.recursive(leaf, lambda ch: st.one_of(
        st.lists(ch, min_size=0, max_size=3).map(lambda l: ["list", l]),
        st.lists(ch, min_size=1, max_size=3).map(lambda l: ["tuple", l]),
        st.lists(ch, min_size=0, max_size=3).map(lambda l: ["dict", l]),
        # dicts whose KEYS are numbers or tuples of numbers (sparse vectors {2: 7, 5: 1}, grids {(0, 1): 9}): keys are not arguments
        st.lists(ch, min_size=1, max_size=3).map(lambda l: ["idict", l]),
        st.lists(ch, min_size=1, max_size=2).map(lambda l: ["tdict", l]),
        # subclasses of the three container types (namedtuple, OrderedDict, a user list class) are containers too
        st.lists(ch, min_size=1, max_size=3).map(lambda l: ["ntuple", l]),
        st.lists(ch, min_size=0, max_size=3).map(lambda l: ["odict", l]),
        st.lists(ch, min_size=0, max_size=3).map(lambda l: ["dlist", l]),
        # the same child OBJECT several times in one list ([row] * n): every occurrence is an argument position
        st.tuples(ch, st.integers(2, 3)).map(lambda t: ["rep", t[0], t[1]]),
    ), max_leaves=6)


class UserList(list):
    pass


def make_container(t, items):
    if t == "list":
        return list(items)
    if t == "tuple":
        return tuple(items)
    if t == "ntuple":
        import collections
        return collections.namedtuple("NT%d" % len(items), ["f%d" % i for i in range(len(items))])(*items)
    if t == "dlist":
        return UserList(items)
    if t == "odict":
        import collections
        return collections.OrderedDict((skey(i), x) for i, x in enumerate(items))
    raise ValueError(t)


def build_arg(s):
    t = s[0]
    if t in ("ntuple", "odict", "dlist"):
        return make_container(t, [build_arg(x) for x in s[1]])
    if t == "int":
        return s[1]
    if t == "float":
        return s[1] / 4.0
    if t == "bool":
        return bool(s[1])
    if t == "pass":
        return s[1]
    if t == "list":
        return [build_arg(x) for x in s[1]]
    if t == "tuple":
        return tuple(build_arg(x) for x in s[1])
    if t == "rep":
        return [build_arg(s[1])] * s[2]
    if t == "same":
        raise ValueError("resolved by build_args")
    if t in ("idict", "tdict"):
        return {dict_key(t, i): build_arg(x) for i, x in enumerate(s[1])}
    return {skey(i): build_arg(x) for i, x in enumerate(s[1])}


SKEYS = ["zeta", "alpha", "Mid", "k10", "k2", "_u", "B", "a"]


def skey(i):
    """string keys whose insertion order is neither their sorted order nor the order of their reprs (a dict keeps insertion order:
    arguments, public values and results follow it)"""
    return SKEYS[i] if i < len(SKEYS) else "k%d" % i


def dict_key(t, i):
    # (integer keys 11, 2, 100, 5 ...: insertion order differs from numeric order and from the order of the decimal strings)
    return [11, 2, 100, 5, 30][i % 5] + 1000 * (i // 5) if t == "idict" else (i, 1.5) if i % 2 else (i, True)


def build_args(structs):
    """top-level arguments; ["same", j] passes the very object built for argument j a second time"""
    out = []
    for s in structs:
        out.append(out[s[1]] if s[0] == "same" else build_arg(s))
    return tuple(out)


def resolve_same(structs):
    """structure as the callee sees it (aliases expanded), for the reference semantics"""
    out = []
    for s in structs:
        out.append(out[s[1]] if s[0] == "same" else s)
    return out


def numeric_leaves(s, path=()):
    """(path, kind, value) of numeric leaves in traversal order"""
    t = s[0]
    if t in ("int", "float", "bool"):
        yield path, t, s[1]
    elif t in ("list", "tuple", "dict", "ntuple", "odict", "dlist", "idict", "tdict"):
        for i, x in enumerate(s[1]):
            yield from numeric_leaves(x, path + (dict_key(t, i) if t in ("idict", "tdict") else skey(i) if t in ("dict", "odict") else i,))
    elif t == "rep":
        for i in range(s[2]):
            yield from numeric_leaves(s[1], path + (i,))


def fetch(args, path):
    x = args
    for k in path:
        x = x[tuple(k) if isinstance(k, list) else k]
    return x


def draw_expr(draw, leaves, depth=0):
    """expression over numeric leaves; returns (ast, kind) with kind in int|float|bool|const"""
    ints = [l for l in leaves if l[1] in ("int", "bool")]
    floats = [l for l in leaves if l[1] == "float"]
    k = draw(st.integers(0, 7 if depth < 2 else 2))
    if k == 0 or not leaves:
        return ["c", draw(st.integers(-3, 5))], "const"
    if k <= 2:
        l = draw(st.sampled_from(leaves))
        return ["leaf", list(l[0])], ("int" if l[1] in ("int", "bool") else "float")
    if k <= 4:
        a, ka = draw_expr(draw, leaves, depth + 1)
        b, kb = draw_expr(draw, leaves, depth + 1)
        kind = "float" if "float" in (ka, kb) else ("int" if "int" in (ka, kb) else "const")
        return [draw(st.sampled_from(["add", "sub"])), a, b], kind
    if k == 5:
        # single product of two leaves / constants (keeps fixed-point products exact)
        pool = leaves
        a = draw(st.sampled_from(pool))
        if draw(st.booleans()) and ints:
            b = draw(st.sampled_from(ints))
            kb = "int"
            bexp = ["leaf", list(b[0])]
        else:
            bexp, kb = ["c", draw(st.integers(-2, 3))], "const"
        ka = "int" if a[1] in ("int", "bool") else "float"
        return ["mul", ["leaf", list(a[0])], bexp], ("float" if ka == "float" else "int")
    if k == 6 and len(ints) >= 1:
        a = draw(st.sampled_from(ints))
        b = draw(st.one_of(st.sampled_from(ints).map(lambda l: ["leaf", list(l[0])]), st.integers(-3, 5).map(lambda c: ["c", c])))
        return [draw(st.sampled_from(["lt", "ge", "eq"])), ["leaf", list(a[0])], b], "bool"
    if k == 7 and ints and draw(st.booleans()):
        # powers with a small constant exponent: x ** 0 is the library's shared constant-one object, x ** 1 the argument itself
        a = draw(st.sampled_from([l for l in ints if l[1] == "int"] or ints))
        if a[1] == "int":
            return ["pow", ["leaf", list(a[0])], draw(st.sampled_from([0, 0, 1, 2]))], "int"
    l = draw(st.sampled_from(leaves))
    return ["leaf", list(l[0])], ("int" if l[1] in ("int", "bool") else "float")


def draw_result(draw, leaves, depth=0):
    k = draw(st.integers(0, 6 if depth < 2 else 3))
    if k <= 3:
        e, kind = draw_expr(draw, leaves)
        return ["expr", e, kind]
    if k == 4:
        return ["pass", draw(st.sampled_from(["s", None]))]
    if k == 5 and draw(st.booleans()):
        return ["rep", draw_result(draw, leaves, depth + 1), draw(st.integers(2, 3))]      # one result object at several positions
    n = draw(st.integers(1, 3))
    items = [draw_result(draw, leaves, depth + 1) for _ in range(n)]
    return [draw(st.sampled_from(["list", "tuple", "dict", "list", "tuple", "dict", "ntuple", "odict", "dlist"])), items]


def eval_expr(e, args):
    t = e[0]
    if t == "c":
        return e[1]
    if t == "leaf":
        return fetch(args, e[1])
    if t == "pow":
        return eval_expr(e[1], args) ** e[2]
    a, b = eval_expr(e[1], args), eval_expr(e[2], args)
    if t == "add":
        return a + b
    if t == "sub":
        return a - b
    if t == "mul":
        return a * b
    if t == "lt":
        return a < b
    if t == "ge":
        return a >= b
    if t == "eq":
        return a == b
    raise ValueError(e)


def eval_result(r, args):
    t = r[0]
    if t == "expr":
        return eval_expr(r[1], args)
    if t == "pass":
        return r[1]
    if t == "list":
        return [eval_result(x, args) for x in r[1]]
    if t == "tuple":
        return tuple(eval_result(x, args) for x in r[1])
    if t == "rep":
        return [eval_result(r[1], args)] * r[2]
    if t in ("ntuple", "dlist"):
        return make_container(t, [eval_result(x, args) for x in r[1]])
    if t == "odict":
        import collections
        return collections.OrderedDict(("r%d" % i, eval_result(x, args)) for i, x in enumerate(r[1]))
    return {"r%d" % i: eval_result(x, args) for i, x in enumerate(r[1])}


def flatten(x):
    if isinstance(x, (list, tuple)):
        for y in x:
            yield from flatten(y)
    elif isinstance(x, dict):
        for k in x:
            yield from flatten(x[k])
    else:
        yield x


def family(x):
    return list if isinstance(x, list) else tuple if isinstance(x, tuple) else dict if isinstance(x, dict) else None


def plain_equal(a, b):
    if family(a) or family(b):
        # subclass instances come back as plain containers of the same family (documented: lists and tuples are traversed)
        if family(a) is not family(b) or len(a) != len(b):
            return False
        if isinstance(a, dict):
            return list(a) == list(b) and all(plain_equal(a[k], b[k]) for k in a)
        return all(plain_equal(x, y) for x, y in zip(a, b))
    if isinstance(a, (int, float, bool)) and isinstance(b, (int, float, bool)):
        return a == b
    if a is None or isinstance(a, str):
        return a is b or (isinstance(b, str) and a == b)
    return False      # anything else (e.g. a secret object that was not converted) is not a plain value


def judge(case):
    ns = env.reset(ir.resolve_p(case["p"]), 16, R)
    rt, rec = ns.rt, ns.rec
    info = {"calls": len(case["calls"])}
    # ONE decorated function serves every call of the case (a decorator's own state lives as long as the function does)
    current = {}
    shared = rt.snark(lambda *a: current["body"](*a)) if case.get("one_wrapper") else None
    for ci, call in enumerate(case["calls"]):
        if call.get("poison"):
            # a call that is refused part-way: an ordinary float followed by one that has no fixed-point value; caught
            current["body"] = lambda *a: a[0]
            try:
                (shared or rt.snark(current["body"]))(0.75, [1.25, float(call["poison"])], 2)
            except (ValueError, OverflowError):
                pass
            continue
        args = build_args(call["args"])
        argstruct = ["tuple", resolve_same(call["args"])]

        def body(*a):
            return eval_result(call["result"], a)
        expected_plain = body(*args)
        n0 = len(rec.vals)
        c0 = len(rec.cons)
        captured = {}

        def traced_body(*a):
            out = body(*a)
            captured["out"] = out
            # a debug print of arguments and results (repr / str / %-formatting of traced values) publishes nothing
            captured["printed"] = "%r %s %s" % (out, a, "{}".format(out))
            return out
        if call.get("kwargs"):
            try:
                rt.snark(traced_body)(*args, extra=1)
            except ValueError:
                if len(rec.vals) != n0 or len(rec.cons) != c0:
                    return "call %d: keyword arguments were refused but left a trace" % ci, info
                continue
            except Exception as e:
                return "call %d: keyword arguments were not refused with ValueError (got %s: %s)" % (ci, type(e).__name__, e), info
            return "call %d: keyword arguments were accepted" % ci, info
        g = call.get("guard")
        defaults = call.get("defaults")
        if defaults:
            # the function has trailing parameters with default values which the caller leaves alone: they are no arguments of
            # the call - they reach the body as the very objects of the definition and nothing about them becomes public
            names = ["a%d" % i for i in range(len(args))]
            scope = {"_tb": traced_body, "_D": defaults, "_seen": captured}
            exec("def f(%s):\n    _seen['defaults'] = [%s]\n    return _tb(%s)\n" % (
                ", ".join(names + ["d%d=_D[%d]" % (j, j) for j in range(len(defaults))]),
                ", ".join("d%d" % j for j in range(len(defaults))), ", ".join(names)), scope)
            fn = scope["f"]
        else:
            fn = traced_body
        snark_ = rt.snark
        if shared is not None and not defaults:
            current["body"] = fn
            snark_ = lambda f: shared
        try:
            if g is None:
                got = snark_(fn)(*args)
            else:
                # the call sits in a region guarded by a secret condition: what becomes public cannot depend on its value
                box = {}

                def region():
                    box["got"] = snark_(fn)(*args)
                    return rt.PrivVal(0)
                rt.guarded(rt.PrivVal(g))(region)()
                got = box["got"]
                n0 += 1          # the condition itself is a private value
        except Exception as e:
            return "call %d raised %s: %s" % (ci, type(e).__name__, e), info
        if defaults and not (len(captured.get("defaults", ())) == len(defaults) and all(x is y for x, y in zip(captured["defaults"], defaults))):
            return "call %d: the default values %r of parameters the caller left alone reached the function as %r" % (ci, defaults, captured.get("defaults")), info
        if g != 0 and not plain_equal(got, expected_plain):       # inside a dead region the values are don't-cares
            return "call %d returned %r, the undecorated function returns %r" % (ci, got, expected_plain), info
        # expected public values
        exp_in = []
        for path, kind, v in numeric_leaves(argstruct):
            if kind == "int":
                exp_in.append(v)
            elif kind == "bool":
                exp_in.append(int(bool(v)))
            else:
                exp_in.append(int(Fraction(v, 4) * (1 << R)))
        exp_out = []
        sec_kinds = set()
        for x in flatten(captured["out"]):
            t = ir.classify(ns, x)
            if t in "IBF":
                exp_out.append(ir.pyval(x, t))
                sec_kinds.add(t)
        pubs = [(i, rec.vals[i]) for i in range(n0 - (1 if g is not None else 0), len(rec.vals)) if rec.kinds[i] == "pub"]
        got_vals = [int(v) for _, v in pubs]
        want = exp_in + exp_out
        if g == 0:
            # dead region: the result values are don't-cares, but WHICH values become public is fixed by the call
            mismatch = len(got_vals) != len(want) or [v % rec.P for v in got_vals[:len(exp_in)]] != [v % rec.P for v in exp_in]
        else:
            mismatch = [v % rec.P for v in got_vals] != [v % rec.P for v in want]
        if mismatch:
            return ("call %d%s: public values created are %r, expected arguments %r followed by results %r" % (
                ci, "" if g is None else " inside a region guarded by a secret %d" % g, got_vals, exp_in, exp_out)), info
        # every output wire is pinned by a constraint
        snap = rec.snapshot()
        for idx, _ in (pubs[len(exp_in):] if g != 0 else []):      # under a false guard the tie is switched off by design
            fixed = {i: v % rec.P for i, v in enumerate(rec.vals) if i != idx}
            sols, status, nodes = r1cs.solve_all(snap["cons"], rec.P, fixed, [idx], limit=3, budget=2000,
                                                 candidates=lambda v: [0, 1, rec.vals[v] + 1])
            if len(sols) != 1 or sols[0][1]:
                return "call %d: public output wire v%d is not tied to the computed result by the constraints" % (ci, idx), info
            if sols[0][0][idx] != rec.vals[idx] % rec.P:
                return "call %d: public output wire v%d is forced to another value than the result" % (ci, idx), info
        kinds = {k for _, k, _ in numeric_leaves(argstruct)}
        if len(kinds) >= 2 and len(exp_out) >= 2:
            info["mixed"] = True
        info.setdefault("in", 0)
        info["in"] += len(exp_in)
        info.setdefault("out", 0)
        info["out"] += len(exp_out)
    bad = r1cs.evaluate(rec.snapshot())
    if bad:
        return "constraint #%d violated by the recorded witness" % bad[0], info
    return None, info


def shard(seed, n_examples):
    stats = core.Stats()
    from harness.recorder import REAL_FIELDS

    @given(st.data())
    def test(data):
        draw = data.draw
        calls = []
        for _ in range(draw(st.integers(1, 4))):
            args = draw(st.lists(arg_structs(), min_size=0, max_size=3))
            if args and draw(st.integers(0, 3)) == 0:
                j = draw(st.integers(0, len(args) - 1))
                if args[j][0] in ("list", "tuple", "dict", "rep", "ntuple", "odict", "dlist", "idict", "tdict"):
                    args.insert(draw(st.integers(j + 1, len(args))), ["same", j])          # f(v, v)
            leaves = list(numeric_leaves(["tuple", resolve_same(args)]))
            calls.append({"args": args, "result": draw_result(draw, leaves), "kwargs": draw(st.integers(0, 9)) == 0,
                          "guard": draw(st.sampled_from([None, None, None, 0, 1]))})
            if not calls[-1]["kwargs"] and draw(st.integers(0, 3)) == 0:
                calls[-1]["defaults"] = draw(st.lists(st.sampled_from([5, 2.5, True, [1, 2], {"k": 3}, None, "s", 0]), min_size=1, max_size=2))
        if draw(st.integers(0, 2)) == 0:
            calls.insert(draw(st.integers(0, len(calls) - 1)), {"poison": draw(st.sampled_from(["nan", "inf", "-inf"]))})
        case = {"p": draw(st.sampled_from(sorted(REAL_FIELDS))), "calls": calls, "one_wrapper": draw(st.booleans())}
        msg, info = judge(case)
        nt = bool(info.get("mixed")) or (len(calls) >= 2 and info.get("out", 0) >= 1)
        labels = ["calls:%d" % len(calls)]
        if info.get("mixed"):
            labels.append("mixed-types")
        if any(c.get("kwargs") for c in calls):
            labels.append("kwargs")
        if any(c.get("defaults") for c in calls):
            labels.append("default-parameters-left-alone")
        if any(c.get("poison") for c in calls):
            labels.append("refused-call-in-the-history")
        if case["one_wrapper"]:
            labels.append("one-decorated-function-for-all-calls")
        for c in calls:
            if c.get("guard") is not None:
                labels.append("call-under-guard:%d" % c["guard"])
        if any('"rep"' in json.dumps(c) or '"same"' in json.dumps(c) for c in calls):
            labels.append("aliased-containers")
        if any(('"%s"' % k) in json.dumps(c) for c in calls for k in ("ntuple", "odict", "dlist")):
            labels.append("container-subclasses")
        stats.case(case if nt else None, nt, labels)
        if msg:
            raise core.Violation(case, msg, "snark")

    v = core.drive(test, seed, n_examples)
    if v is not None:
        stats.violations.append({"case": v.case, "msg": v.msg, "key": v.key})
    return stats


def deep_case(case):
    """Argument or result structures nested very deeply (hundreds of levels, or a few dozen with little stack left): the call
    either is refused with RecursionError or exposes exactly its arguments and results - each once. Returns message or None."""
    import sys
    ns = env.reset(ir.resolve_p(case["p"]), 16, R)
    rt, rec = ns.rt, ns.rec
    depth, where, headroom = case["depth"], case["where"], case.get("headroom")

    def nest(x, d):
        for _ in range(d):
            x = [x]
        return x

    def unnest(x):
        while isinstance(x, list):
            x = x[0]
        return x
    if where == "arg":
        args = (2, nest(4, depth))
        fn = lambda a, b: a * unnest(b) + 1
        want = [2, 4, 9]
    else:
        args = (3, 5)
        fn = lambda a, b: [a + b, nest(a * b, depth)]
        want = [3, 5, 8, 15]
    n0 = len(rec.vals)
    old = sys.getrecursionlimit()
    try:
        if headroom:
            import inspect
            sys.setrecursionlimit(len(inspect.stack()) + headroom)
        try:
            rt.snark(fn)(*args)
        except RecursionError:
            return None
    finally:
        sys.setrecursionlimit(old)
    got = [int(rec.vals[i]) for i in range(n0, len(rec.vals)) if rec.kinds[i] == "pub"]
    if got != want:
        return "a call with a %s nested %d levels deep%s created the public values %r, expected %r (each argument and result once)" % (
            "second argument" if where == "arg" else "result", depth, " (%d frames of stack left)" % headroom if headroom else "", got, want)
    if r1cs.evaluate(rec.snapshot()):
        return "constraint violated by the recorded witness"
    return None


def deep_shard(cases):
    stats = core.Stats()
    for case in cases:
        msg = deep_case(case)
        stats.case(case, True, ("deep-structure:" + case["where"],))
        if msg:
            stats.violations.append({"case": case, "msg": msg, "key": "deep"})
    return stats


def replay(case):
    if case.get("part") == "deep":
        return deep_case(case)
    return judge(case)[0]


def run(ctx):
    ctx.rule = RULE
    ctx.assumptions = ["bodies restricted to +,-,single products and integer comparisons so that plain Python floats and "
                       "fixed point agree exactly (dyadic operands); recorder, evaluator, search"]
    n = 200 if ctx.tier == "quick" else 4000
    ctx.stats = core.run_shards("harness.checks.c17", "shard",
                                [dict(seed=ctx.seed * 1000 + i, n_examples=n) for i in range(16)])
    deep = [{"part": "deep", "p": "bn128", "depth": d, "where": w, "headroom": h}
            for w in ("arg", "result") for d, h in ((10, None), (100, None), (400, None), (600, None), (2000, None), (30, 80), (60, 100), (60, 140), (200, 300))]
    ctx.stats.merge_json(core.run_shards("harness.checks.c17", "deep_shard", [dict(cases=deep[i::4]) for i in range(4)]).to_json())
