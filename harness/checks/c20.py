"""C20: hash gadgets equal a plain reference and use the active backend's parameters."""
import hashlib
import json
import os
import struct
import subprocess
import sys

from hypothesis import given, strategies as st

from harness import core, backends, recorder

RULE = ("(a) in-process differential, the recorder posing as each supported backend (zkinterface/bn128, "
        "zkifbellman/bls12-381, zkifbulletproofs/curve25519; one process per field): input vectors of 0..3 blocks with "
        "values across the field (0, 1, p-1, powers of two, random) as secret ints, booleans and fixed-point values. "
        "Oracle: an independent plain-integer Poseidon (constants file read as data, own round function and 10* padding) "
        "and an own subset-sum hash (own SHA-512 coefficient derivation) give the same field elements; the published "
        "vectors of x5_254_5 and x5_255_5 are reproduced by gadget and reference; emitted constraints are satisfied and "
        "their number depends only on the input length; hash(m), hash(m||0), hash(m||1) are pairwise different and a full "
        "block differs from its short form; the same after importing the hash modules for the first time inside a region "
        "guarded by a false / true secret condition, a lazily evaluated branch, or under ignore_errors. (b) selection paths: one interpreter per (PYSNARK_BACKEND value / pre-imported "
        "module / auto-detection with stand-ins) asserting that the parameter set bound by pysnark.poseidon_hash is the "
        "one registered for runtime.backend_name and that a backend without registered parameters makes the import raise "
        "instead of using the toy set. Non-trivial = length >= 1 and a value >= 2^128 (a); every selection case (b); "
        "distinct by case digest.")
RULE += " Extensions (seeded rounds 10-15): messages of 256 / 257 (thorough: up to 1000) elements, a reduced-rounds parameter table registered by the program, refused hash calls in the history, digests hashed again."


CONFIG_MODULE = {"zkinterface": "pysnark.zkinterface.backend", "zkifbellman": "pysnark.zkinterface.backendbellman",
                 "zkifbulletproofs": "pysnark.zkinterface.backendbulletproofs"}
VECTORS = {
    "zkinterface": [0x299c867db6c1fdd79dcefa40e4510b9837e60ebb1ce0663dbaa525df65250465,
                    0x1148aaef609aa338b27dafd89bb98862d8bb2b429aceac47d86206154ffe053d,
                    0x24febb87fed7462e23f6665ff9a0111f4044c38ee1672c1ac6b0637d34f24907,
                    0x0eb08f6d809668a981c186beaf6110060707059576406b248e5d9cf6e78b3d3e,
                    0x07748bc6877c9b82c8b98666ee9d0626ec7f5be4205f79ee8528ef1c4a376fc7],
    "zkifbellman": [0x2a918b9c9f9bd7bb509331c81e297b5707f6fc7393dcee1b13901a0b22202e18,
                    0x65ebf8671739eeb11fb217f2d5c5bf4a0c3f210e3f3cd3b08b5db75675d797f7,
                    0x2cc176fc26bc70737a696a9dfd1b636ce360ee76926d182390cdb7459cf585ce,
                    0x4dc4e29d283afd2a491fe6aef122b9a968e74eff05341f3cc23fda1781dcb566,
                    0x03ff622da276830b9451b88b85e6184fd6ae15c8ab3ee25a5667be8592cce3b1],
}


# ---- independent references ---------------------------------------------------

def ref_permute(state, c, p):
    rf, rp, t, a = c["R_F"], c["R_P"], c["t"], c["a"]
    rc, M = c["round_constants"], c["matrix"]
    s = [x % p for x in state]
    rnd = 0

    def mix(s):
        return [sum(M[i][k] * s[k] for k in range(t)) % p for i in range(t)]
    for phase, n in (("full", rf // 2), ("partial", rp), ("full", rf // 2)):
        for _ in range(n):
            s = [(x + k) % p for x, k in zip(s, rc[rnd])]
            if phase == "full":
                s = [pow(x, a, p) for x in s]
            else:
                s[0] = pow(s[0], a, p)
            s = mix(s)
            rnd += 1
    return s


def ref_hash(msg, c, p):
    t = c["t"]
    rate = t - 1
    padded = list(msg) + [1]
    while len(padded) % rate:
        padded.append(0)
    s = [0] * t
    for i in range(0, len(padded), rate):
        blk = padded[i:i + rate]
        s = [s[0]] + [(x + y) % p for x, y in zip(s[1:], blk)]
        s = ref_permute(s, c, p)
    return s[1:]


def ref_coeff(i, p):
    nbits = p.bit_length()
    it = 0
    while True:
        v = int.from_bytes(hashlib.sha512(struct.pack("<QQ", i, it)).digest(), "little") % (1 << nbits)
        if v < p:
            return v
        it += 1


def ref_ggh(bits, p):
    return sum(b * ref_coeff(i, p) for i, b in enumerate(bits)) % p


# ---- in-process part ------------------------------------------------------------

def hash_shard(config, seed, n_examples, import_ctx="top", long_lengths=()):
    """import_ctx: where this process imports the hash modules for the first time (the test suite recommends importing
    inside functions): at top level, inside a region guarded by a false / true secret condition, or under ignore_errors"""
    from harness import env, r1cs
    stats = core.Stats()
    p = backends.FIELDS[config]
    recorder.P = p
    ns = env.bind(CONFIG_MODULE[config])
    rt = ns.rt
    if rt.backend_name != config:
        raise core.HarnessError("recorder posing as %s was selected as %r" % (config, rt.backend_name))
    os.environ["PYSNARK_BACKEND"] = config     # the pinned tree keyed the parameters by this variable
    def first_import():
        import pysnark.poseidon_hash
        import pysnark.ggh_hash
        return 1
    try:
        if import_ctx == "reduced-rounds-table":
            # the program registers its own parameter set for the selected backend before the gadget is imported: fewer rounds
            # over the same (longer) constant list - round i uses row i, the rows beyond R_F + R_P are simply not used
            from pysnark.poseidon_constants import poseidon_constants as pc_
            pc_[config] = dict(pc_[config], R_F=4, R_P=5 + seed % 3)
        if import_ctx == "false-guard":
            rt.guarded(rt.PrivVal(0))(first_import)()
        elif import_ctx == "true-guard":
            rt.guarded(rt.PrivVal(1))(first_import)()
        elif import_ctx == "ignore":
            rt.ignore_errors(True)
            first_import()
            rt.ignore_errors(False)
        elif import_ctx == "lazy-branch":
            ns.br.if_then_else(ns.bo.PrivValBool(0), lambda: rt.PrivVal(first_import()), rt.PrivVal(0))
        import pysnark.poseidon_hash as ph
    finally:
        os.environ.pop("PYSNARK_BACKEND", None)
    import pysnark.ggh_hash as gh
    from pysnark.poseidon_constants import poseidon_constants
    consts = poseidon_constants[config]
    if import_ctx in ("first-call-false-guard", "first-call-true-guard"):
        # the first hash / permutation of the process happens inside a guarded region (whatever is set up lazily on first
        # use is set up there)
        env.reset(p, 16, 8)
        gcond = rt.PrivVal(0 if import_ctx == "first-call-false-guard" else 1)
        rt.guarded(gcond)(lambda: (ph.poseidon_hash([rt.PrivVal(3), rt.PrivVal(1)]), gh.ggh_hash([rt.PrivVal(1), rt.PrivVal(0)]), rt.PrivVal(0))[2])()
    found = {}

    def fail(case, msg, key):
        if import_ctx == "reduced-rounds-table":
            case = dict(case, table={"R_F": consts["R_F"], "R_P": consts["R_P"]})
        raise core.Violation(case, msg, key)

    # published vectors
    if config in VECTORS and import_ctx != "reduced-rounds-table":
        env.reset(p, 16, 8)
        out = ph.permute([rt.PrivVal(i) for i in range(5)])
        got = [x.value % p for x in out]
        refv = ref_permute([0, 1, 2, 3, 4], consts, p)
        case = {"config": config, "part": "vector"}
        stats.case(case, True, ("vector:" + config,))
        if got != VECTORS[config] or refv != VECTORS[config]:
            stats.violations.append({"case": case, "key": "vector", "msg": "published vector of %s not reproduced (gadget ok: %s, reference ok: %s)" % (
                config, got == VECTORS[config], refv == VECTORS[config])})
            return stats
    # messages of many blocks (lengths around 256 and beyond: dozens to hundreds of sponge rounds), also with one more element
    # in the same final block
    for L in long_lengths:
        msg = [(i * 7919 + 13) % 1000 for i in range(L)]
        case = {"config": config, "part": "hash", "msg": msg, "kinds": "I" * L}
        nsl = env.reset(p, 16, 8)
        ins = [rt.PrivVal(v) for v in msg]
        got = [x.value % p for x in ph.poseidon_hash(ins)]
        stats.case({"config": config, "part": "hash", "long_message_of": L}, True, ("hash:long", "blocks:%d" % (L // 4 + 1)))
        if got != ref_hash(msg, consts, p):
            stats.violations.append({"case": case, "key": "hash-long", "msg": "hash of a message of %d elements (%d blocks) differs from the plain reference" % (L, L // 4 + 1)})
            return stats
        if len(ins) != L or r1cs.evaluate(nsl.rec.snapshot()):
            stats.violations.append({"case": case, "key": "hash-long", "msg": "hash of a message of %d elements: argument list changed or a constraint is violated" % L})
            return stats
    if long_lengths:
        # subset-sum hash of long bit strings (every length around 125 / 128 / 250 / 256 and up to 1024, ones in the tail)
        for n_ in sorted(set(list(range(120, 131)) + list(range(248, 259)) + [41, 64, 100, 375, 376, 500, 511, 512, 513, 1000, 1024])):
            if n_ % len(long_lengths) != long_lengths[0] % len(long_lengths) and len(long_lengths) > 1:
                pass
            bits = [1 if (i * 7 + 1) % 3 == 0 or i >= n_ - 3 else 0 for i in range(n_)]
            nsl = env.reset(p, 16, 8)
            out = gh.ggh_hash([rt.PrivVal(b_) for b_ in bits])
            want = ref_ggh(bits, p)
            case = {"config": config, "part": "ggh", "bits": bits, "secret": True}
            stats.case({"config": config, "part": "ggh", "long_bit_string_of": n_}, True, ("ggh:long",))
            if out.value % p != want or (r1cs.lc_value(out.lc.d, nsl.rec.vals, p) - want) % p:
                stats.violations.append({"case": case, "key": "ggh-long", "msg": "subset-sum hash of a %d-bit string differs from the plain reference" % n_})
                return stats
        return stats
    # coefficient derivation of the subset-sum hash, index by index (rejection sampling: rare indices need many retries)
    ncoef = 3000 if n_examples < 100 else 120000
    if import_ctx != "top":
        ncoef = 100
    lo = (seed % 5) * ncoef
    for i in list(range(0, 600 if import_ctx == "top" else 40)) + list(range(lo, lo + ncoef)):
        if gh.SHA512_prng(i) != ref_coeff(i, p):
            case = {"config": config, "part": "coefficient", "index": i}
            stats.violations.append({"case": case, "key": "coefficient",
                                     "msg": "subset-sum coefficient #%d is %d, the documented derivation gives %d" % (i, gh.SHA512_prng(i), ref_coeff(i, p))})
            return stats
    stats.case({"config": config, "part": "coefficient", "range": [lo, lo + ncoef]}, True, ("ggh-coefficients",))
    stats.extra["ggh_coefficients_compared"] = stats.extra.get("ggh_coefficients_compared", 0) + ncoef + 600
    counts = {}
    kept = []       # (description, result list kept by the caller, reference values): later calls must not change earlier results

    def check_kept(case):
        for what, out, want, earlier in kept[:-1]:
            if [x.value % p for x in out] != want:
                fail({"config": config, "part": "sequence", "calls": [earlier, case]},
                     "the result of an earlier call (%s) changed after a later call of the gadget" % what, "result-overwritten")
        del kept[:-3]

    def elems():
        return st.one_of(st.sampled_from([0, 1, 2, p - 1, p - 2, 1 << 128, (1 << 200) + 5, p // 2]), st.integers(0, p - 1), st.integers(0, 1 << 64))

    @given(st.data())
    def test(data):
        draw = data.draw
        which = draw(st.sampled_from(["hash", "hash", "permute", "ggh", "padding"]))
        ns_ = env.reset(p, 16, 8)
        rec = ns_.rec
        if which == "ggh":
            n = draw(st.integers(1, 40))
            bits = [draw(st.integers(0, 1)) for _ in range(n)]
            secret = draw(st.sampled_from([True, False, "mixed"]))
            case = {"config": config, "part": "ggh", "bits": bits, "secret": secret}
            if secret == "mixed":
                # known (plain) and secret bits side by side; the first one secret (a leading plain bit is not supported)
                case["mask"] = [True] + [draw(st.booleans()) for _ in bits[1:]]
            if gh.PRIME != p:
                raise core.HarnessError("ggh_hash bound to another field")
            if secret == "mixed":
                arg = [rt.PrivVal(b) if m_ else b for b, m_ in zip(bits, case["mask"])]
            else:
                arg = [rt.PrivVal(b) for b in bits] if secret else list(bits)
            arg0 = list(arg)
            out = gh.ggh_hash(arg)
            if len(arg) != len(arg0) or any(a is not b for a, b in zip(arg, arg0)):
                fail(case, "ggh_hash changed the list it was given", "argument-altered")
            got = out.value if secret else out
            want = ref_ggh(bits, p)
            stats.case(case, True, ("ggh:" + ("mixed" if secret == "mixed" else "secret" if secret else "plain"),), sample_cap=2)
            if got % p != want:
                fail(case, "subset-sum hash of %r returned %d, reference gives %d" % (bits, got, want), "ggh")
            if secret and (r1cs.lc_value(out.lc.d, rec.vals, p) - want) % p:
                fail(case, "subset-sum hash: wire expression does not evaluate to the reference value", "ggh")
            return
        if which == "permute":
            state = [draw(elems()) for _ in range(5)]
            case = {"config": config, "part": "permute", "state": state}
            out = ph.permute([rt.PrivVal(v) for v in state])
            got = [x.value % p for x in out]
            want = ref_permute(state, consts, p)
            nt = any(v >= (1 << 128) for v in state)
            stats.case(case if nt else None, nt, ("permute",), sample_cap=2)
            if got != want:
                fail(case, "permutation of %r differs from the plain reference in position %d" % (state, [i for i in range(5) if got[i] != want[i]][0]), "permute")
            if r1cs.evaluate(rec.snapshot()):
                fail(case, "permutation emitted a constraint its witness violates", "permute")
            for x, w in zip(out, want):
                if r1cs.lc_value(x.lc.d, rec.vals, p) != w:
                    fail(case, "permutation output wire does not evaluate to the reference value", "permute")
            kept.append(("permute of %r" % (state,), out, want, case))
            check_kept(case)
            counts.setdefault(("permute", 5), set()).add(len(rec.cons))
            if len(counts[("permute", 5)]) > 1:
                fail(case, "number of constraints of a permutation depends on the input values: %r" % sorted(counts[("permute", 5)]), "count")
            return
        n = draw(st.integers(0, 12))
        msg = [draw(elems()) for _ in range(n)]
        bad_at = draw(st.sampled_from([None, None, None, 0, 1, 2, 3, 5, 6]))
        if bad_at is not None:
            # a history with a refusal in it: an earlier hash call was given a list with a plain int in it (refused with
            # RuntimeError), the program caught that and hashes on
            try:
                ph.poseidon_hash([rt.PrivVal(k_ + 1) for k_ in range(bad_at)] + [7] + [rt.PrivVal(9)] * draw(st.integers(0, 2)))
            except RuntimeError:
                pass
        if which == "padding":
            case = {"config": config, "part": "padding", "msg": msg}
            hs = []
            for m in (msg, msg + [0], msg + [1]):
                env.reset(p, 16, 8)
                hs.append([x.value % p for x in ph.poseidon_hash([rt.PrivVal(v) for v in m])])
            stats.case(case if n else None, n >= 1, ("padding",), sample_cap=2)
            if hs[0] == hs[1] or hs[0] == hs[2] or hs[1] == hs[2]:
                fail(case, "messages %r, +[0], +[1] do not have pairwise different hashes" % (msg,), "padding")
            if [ref_hash(m, consts, p) for m in (msg, msg + [0], msg + [1])] != hs:
                fail(case, "sponge output differs from the plain reference for %r or an extension" % (msg,), "hash")
            return
        kinds = [draw(st.sampled_from("IIBF")) for _ in range(n)]
        vals = []
        ins = []
        for k, v in zip(kinds, msg):
            if k == "B":
                v = v % 2
                ins.append(ns_.bo.PrivValBool(v))
            elif k == "F":
                ins.append(ns_.fx.PrivValFxp(v, False))
            else:
                ins.append(rt.PrivVal(v))
            vals.append(v)
        case = {"config": config, "part": "hash", "msg": vals, "kinds": "".join(kinds)}
        c0 = len(rec.cons)
        given_ins = list(ins)
        out = ph.poseidon_hash(ins)
        got = [x.value % p for x in out]
        want = ref_hash(vals, consts, p)
        # the caller's list is an argument, not scratch space: same length, same objects, and hashing it again gives the same
        if len(ins) != len(given_ins) or any(a is not b for a, b in zip(ins, given_ins)):
            fail(case, "poseidon_hash changed the list it was given (%d elements before the call, %d after)" % (len(given_ins), len(ins)), "argument-altered")
        nt = n >= 1 and any(v >= (1 << 128) for v in vals)
        stats.case(case if nt else None, nt, ("hash:len%d" % min(n, 9), "blocks:%d" % (n // 4 + 1)), sample_cap=2)
        if got != want:
            fail(case, "hash of %r (%s) differs from the plain reference" % (vals, "".join(kinds)), "hash")
        if r1cs.evaluate(rec.snapshot()):
            fail(case, "hash emitted a constraint its witness violates", "hash")
        for x, w in zip(out, want):
            if r1cs.lc_value(x.lc.d, rec.vals, p) != w:
                fail(case, "hash output wire does not evaluate to the reference value", "hash")
        if n % 2 == 0:
            # hash chains / Merkle nodes: the digest (the very list the gadget returned) is the next message, alone and
            # concatenated with itself
            d2 = [x.value % p for x in ph.poseidon_hash(out)]
            if d2 != ref_hash(want, consts, p):
                fail(dict(case, chained=True), "hash of the digest of %r (the returned list fed straight back) differs from the plain reference" % (vals,), "hash")
            d3 = [x.value % p for x in ph.poseidon_hash(out + out)]
            if d3 != ref_hash(want + want, consts, p):
                fail(dict(case, chained=True), "hash of two concatenated digests of %r differs from the plain reference" % (vals,), "hash")
        if n % 3 == 0:
            again = [x.value % p for x in ph.poseidon_hash(ins)]
            if again != want:
                fail(dict(case, twice=True), "hashing the same list %r a second time gives another digest" % (vals,), "hash")
        kept.append(("hash of %r" % (vals,), out, want, case))
        check_kept(case)
        counts.setdefault(("hash", n), set()).add(len(rec.cons) - c0)
        if len(counts[("hash", n)]) > 1:
            fail(case, "number of constraints for %d inputs depends on the values: %r" % (n, sorted(counts[("hash", n)])), "count")

    v = core.drive(test, seed, n_examples, shrink=False)
    if v is not None:
        stats.violations.append({"case": v.case, "msg": v.msg, "key": v.key})
    return stats


# ---- selection paths ---------------------------------------------------------------

CHILD = '''import sys, json, importlib
pre = %r
for m in pre:
    importlib.import_module(m)
import pysnark.runtime as rt
rt.autoprove = False
from pysnark.poseidon_constants import poseidon_constants as pc
out = {"name": rt.backend_name, "registered": rt.backend_name in pc}
try:
    import pysnark.poseidon_hash as ph
    out["imported"] = True
    out["which"] = [k for k in pc if pc[k] is ph.constants]
    out["rf"] = ph.R_F
except NotImplementedError as e:
    out["imported"] = False
    out["error"] = str(e)
print("RESULT " + json.dumps(out))
'''


def selection_cases():
    cases = []
    allload = {"libsnark": False, "qaptools": False, "flatbuffers": True}
    for envname in [None, "zkinterface", "zkifbellman", "zkifbulletproofs", "snarkjs", "nobackend", "qaptools", "bogus"]:
        for load in (allload, {"libsnark": False, "qaptools": True, "flatbuffers": True}, {"libsnark": True, "qaptools": False, "flatbuffers": True}):
            if envname == "qaptools" and not load["qaptools"]:
                continue
            cases.append({"env": envname, "pre": [], "load": load})
    for pre in (["zkinterface"], ["zkifbellman"], ["zkifbulletproofs"], ["snarkjs"], ["nobackend"], ["zkinterface", "zkifbellman"]):
        for envname in (None, "zkinterface", "snarkjs"):
            cases.append({"env": envname, "pre": pre, "load": allload})
    return cases


def selection_case(cfg):
    from harness.checks import c19
    paths = [backends.REPO]
    if cfg["load"]["flatbuffers"]:
        paths.append(os.path.join(backends.SHIMS, "fb"))
    if cfg["load"]["libsnark"]:
        paths.append(os.path.join(backends.SHIMS, "libsnark_stub"))
    envv = {k: v for k, v in os.environ.items() if k not in ("PYSNARK_BACKEND", "QAPTOOLS_BIN", "PYTHONPATH")}
    envv.update({"PYTHONPATH": os.pathsep.join(paths) + core.COVPATH, "PYTHONDONTWRITEBYTECODE": "1", "PYTHONHASHSEED": core.hashseed_for(cfg),
                 "QAPTOOLS_BIN": os.path.join(backends.SHIMS, "qapbin") if cfg["load"]["qaptools"] else "/nonexistent-qaptools-dir"})
    if cfg["env"] is not None:
        envv["PYSNARK_BACKEND"] = cfg["env"]
    import tempfile, shutil
    tmp = tempfile.mkdtemp(prefix="verif-c20-")
    try:
        r = subprocess.run([sys.executable, "-c", CHILD % ([c19.MOD[n] for n in cfg["pre"]],)], cwd=tmp, env=envv,
                           capture_output=True, text=True, timeout=120, start_new_session=True)
    finally:
        shutil.rmtree(tmp, ignore_errors=True)
    res = None
    for ln in r.stdout.splitlines():
        if ln.startswith("RESULT "):
            res = json.loads(ln[7:])
    desc = "PYSNARK_BACKEND=%r, pre-imported %r, loadable %r" % (cfg["env"], cfg["pre"], sorted(k for k, v in cfg["load"].items() if v))
    if res is None:
        raise core.HarnessError("selection child failed (%s): %s" % (desc, r.stderr[-300:]))
    if res["registered"]:
        if not res["imported"]:
            return "%s: backend %s has registered Poseidon parameters but the import raised: %s" % (desc, res["name"], res.get("error"))
        if res["which"] != [res["name"]]:
            return "%s: backend in use is %s but pysnark.poseidon_hash bound the parameter set of %r" % (desc, res["name"], res["which"])
    else:
        if res["imported"]:
            return "%s: backend %s has no registered Poseidon parameters, yet the import succeeded with the set of %r" % (desc, res["name"], res["which"])
    return None


def selection_shard(cases):
    stats = core.Stats()
    found = {}
    for cfg in cases:
        msg = selection_case(cfg)
        stats.case(dict(cfg, part="selection"), True, ("selection:" + ("pre-import" if cfg["pre"] else "env" if cfg["env"] else "auto-detect"),), sample_cap=3)
        if msg:
            key = "selection:" + ("pre-import" if cfg["pre"] else "env" if cfg["env"] else "auto-detect")
            if key not in found:
                found[key] = {"case": dict(cfg, part="selection"), "msg": msg, "key": key}
    stats.violations = list(found.values())
    return stats


def replay(case):
    if case.get("part") == "selection":
        return selection_case(case)
    if case.get("part") == "coefficient":
        import subprocess, sys
        code = ("import sys; sys.path[:0]=[%r,%r]; from harness.checks import c20; from harness import env, recorder, backends; "
                "recorder.P = backends.FIELDS[%r]; env.bind(c20.CONFIG_MODULE[%r]); import pysnark.ggh_hash as gh; "
                "sys.exit(0 if gh.SHA512_prng(%d) == c20.ref_coeff(%d, recorder.P) else 1)" % (
                    core.ROOT, os.environ.get("VERIF_REPO", "/repo"), case["config"], case["config"], case["index"], case["index"]))
        r = subprocess.run([sys.executable, "-c", code])
        return None if r.returncode == 0 else "subset-sum coefficient #%d differs from the documented derivation" % case["index"]
    if case.get("part") in ("hash", "permute", "sequence"):
        # a fresh interpreter (the hash modules bind to the backend at import): the recorded calls in order, every result
        # compared with the reference after ALL calls were made
        import subprocess, sys
        code = ("import sys, json; sys.path[:0]=[%r,%r]; from harness.checks import c20; "
                "m = c20.replay_guarded(json.loads(sys.stdin.read())); print('REPLAY-RESULT ' + json.dumps(m))" % (
                    core.ROOT, os.environ.get("VERIF_REPO", "/repo")))
        r = subprocess.run([sys.executable] + (["-O"] if case.get("python_optimise") else []) + ["-c", code], input=json.dumps(case),
                           capture_output=True, text=True)
        for ln in r.stdout.splitlines():
            if ln.startswith("REPLAY-RESULT "):
                return json.loads(ln[len("REPLAY-RESULT "):])
        raise core.HarnessError("C20 replay child failed: %s" % r.stderr[-300:])
    st_ = hash_shard(case["config"], 1, 1)     # vectors and coefficient prefix
    return "; ".join(v["msg"] for v in st_.violations) or None


def replay_guarded(case):
    """replay_inproc; an exception raised by the library on a saved (valid) case is a result, not a crash of the replay"""
    try:
        return replay_inproc(case)
    except Exception as e:
        lib = core.library_frame(e)
        if lib is None:
            raise
        return "the library raised %s: %s at %s on a saved case" % (type(e).__name__, e, lib)


def replay_inproc(case):
    from harness import env
    config = case["config"]
    p = backends.FIELDS[config]
    recorder.P = p
    ns = env.bind(CONFIG_MODULE[config])
    rt = ns.rt
    os.environ["PYSNARK_BACKEND"] = config
    tbl = case.get("table") or (case.get("calls") or [{}])[0].get("table")
    try:
        if tbl:
            from pysnark.poseidon_constants import poseidon_constants as pc_
            pc_[config] = dict(pc_[config], **tbl)
        import pysnark.poseidon_hash as ph
    finally:
        os.environ.pop("PYSNARK_BACKEND", None)
    from pysnark.poseidon_constants import poseidon_constants
    consts = poseidon_constants[config]
    env.reset(p, 16, 8)
    results = []
    for c in (case["calls"] if case.get("part") == "sequence" else [case]):
        if c["part"] == "permute":
            out = ph.permute([rt.PrivVal(v) for v in c["state"]])
            results.append(("permutation of %r" % (c["state"],), out, ref_permute(c["state"], consts, p)))
        else:
            ins = []
            for k, v in zip(c["kinds"], c["msg"]):
                ins.append(ns.bo.PrivValBool(v) if k == "B" else ns.fx.PrivValFxp(v, False) if k == "F" else rt.PrivVal(v))
            n_in = len(ins)
            out = ph.poseidon_hash(ins)
            if len(ins) != n_in:
                return "poseidon_hash changed the list it was given (%d elements before the call, %d after)" % (n_in, len(ins))
            results.append(("hash of %r" % (c["msg"],), out, ref_hash(c["msg"], consts, p)))
            if c.get("twice"):
                results.append(("second hash of the same list %r" % (c["msg"],), ph.poseidon_hash(ins), ref_hash(c["msg"], consts, p)))
    for what, out, want in results:
        if [x.value % p for x in out] != want:
            return "%s differs from the plain reference%s" % (what, " once all calls were made" if len(results) > 1 else "")
    return None


def run(ctx):
    ctx.rule = RULE
    ctx.assumptions = ["the constants file is used as data by the reference; the published vectors anchor both implementations for x5_254_5 and x5_255_5 (no published vector for the curve25519 set)",
                       "recorder posing as each zkinterface backend; stand-ins for selection paths"]
    n = 30 if ctx.tier == "quick" else 600
    reps = 5 if ctx.tier == "quick" else 5
    jobs = [dict(config=c, seed=ctx.seed * 1000 + 13 * i + k, n_examples=n) for i, c in enumerate(CONFIG_MODULE) for k in range(reps)]
    # the same differential after a first import inside a guarded region / under ignore_errors
    jobs += [dict(config=c, seed=ctx.seed * 1000 + 700 + 7 * i + k, n_examples=5 if ctx.tier == "quick" else 150, import_ctx=ic)
             for i, c in enumerate(CONFIG_MODULE) for k, ic in enumerate(["false-guard", "true-guard", "ignore", "lazy-branch", "first-call-false-guard", "first-call-true-guard", "reduced-rounds-table"])]
    for c in CONFIG_MODULE:
        for Ls in ([[256], [257]] if ctx.tier == "quick" else [[255, 256], [257, 258], [300, 513], [1000]]):
            jobs.append(dict(config=c, seed=0, n_examples=0, long_lengths=Ls))
    total = core.run_shards("harness.checks.c20", "hash_shard", jobs)
    total.merge_json(core.run_shards_optimised("harness.checks.c20", "hash_shard",
                                               [dict(config=c, seed=ctx.seed * 1000 + 900 + i, n_examples=12) for i, c in enumerate(CONFIG_MODULE)]).to_json())
    cases = selection_cases()
    total.merge_json(core.run_shards("harness.checks.c20", "selection_shard", [dict(cases=cases[i::16]) for i in range(16)]).to_json())
    ctx.stats = total
