"""C03: assertions and declared types are enforced inside the circuit."""
import itertools
import operator as o

from harness import core, env, r1cs

RULE = ("assertion kind (eq, ne, lt, le, gt, ge with secret or constant second operand; zero, nonzero, positive "
        "with/without width, range; boolean declarations LinCombBool(x) / _ensurebool(x) / PrivValBool; "
        "PackIntMod.unpack on secret bits; fixed-point and boolean wrappers) x width arguments x (small prime, "
        "bitlength). For each kind the circuit is captured from an accepted call (and, for a sample of violating "
        "values, from a call under ignore_errors: the two canonical traces must agree), the operand wire(s) are freed "
        "and for EVERY operand value of the window (all of F_p for one operand; [-2^b-2, 2^b+2]^2 for two) the "
        "remaining witness space is searched completely for a satisfying completion (satisfiable set S). "
        "Independently the accepted set A is computed by calling the assertion in normal mode on every value, and the "
        "relation R from its definition. Oracle: S has no value outside R (false => unsatisfiable), A is inside S "
        "(accepted => satisfiable) and S == A (the in-circuit relation is the run-time one: same bounds, same width). "
        "Fixed-point assertions are also given non-finite float bounds (nan, inf, -inf; relation = Python float comparison). Non-trivial = window has values on both sides of R and S is neither empty nor full; distinct by "
        "(kind, parameters, field, bitlength).")
RULE += " Extensions (seeded rounds 10-15): non-finite float bounds, plain array entries (also with errors ignored for kinds that are never accepted), arrays of different lengths, assertions after a refused float bound, assertions on outputs of divisions and of from_bits over raw wires, widths beyond 64 bits, float bounds next to whole numbers on integer assertions, plain sequences as the right-hand side of Array.assert_eq."



class Kind:
    def __init__(self, name, nops, call, rel, params=(None,), optype="I"):
        self.name, self.nops, self.call, self.rel, self.params, self.optype = name, nops, call, rel, params, optype


def kinds(b):
    lim = 1 << b
    K = []
    cmpops = [("eq", o.eq), ("ne", o.ne), ("lt", o.lt), ("le", o.le), ("gt", o.gt), ("ge", o.ge)]
    for nm, rel in cmpops:
        K.append(Kind("assert_%s(x,y)" % nm, 2, (lambda n: lambda ns, ops, prm: getattr(ops[0], "assert_" + n)(ops[1]))(nm),
                      (lambda r: lambda v, prm: r(v[0], v[1]))(rel)))
        K.append(Kind("assert_%s(x,const)" % nm, 1, (lambda n: lambda ns, ops, prm: getattr(ops[0], "assert_" + n)(prm))(nm),
                      (lambda r: lambda v, prm: r(v[0], prm))(rel), params=[-lim, -1, 0, 1, 3, lim - 1, lim]))
        K.append(Kind("fxp.assert_%s(x,y)" % nm, 2,
                      (lambda n: lambda ns, ops, prm: getattr(ns.fx.LinCombFxp(ops[0], False), "assert_" + n)(ns.fx.LinCombFxp(ops[1], False)))(nm),
                      (lambda r: lambda v, prm: r(v[0], v[1]))(rel)))
        K.append(Kind("bool.assert_%s(x,const)" % nm, 1,
                      (lambda n: lambda ns, ops, prm: getattr(ns.bo.LinCombBool(ops[0]), "assert_" + n)(prm))(nm),
                      (lambda r: lambda v, prm: v[0] in (0, 1) and r(v[0], prm))(rel), params=[0, 1, 2, -1, 3]))
    for nm, rel in cmpops:
        K.append(Kind("bool.assert_%s(x,y)" % nm, 2,
                      (lambda n: lambda ns, ops, prm: getattr(ns.bo.LinCombBool(ops[0]), "assert_" + n)(ns.bo.LinCombBool(ops[1])))(nm),
                      (lambda r: lambda v, prm: v[0] in (0, 1) and v[1] in (0, 1) and r(v[0], v[1]))(rel)))
        K.append(Kind("fxp.assert_%s(x,int const)" % nm, 1,
                      (lambda n: lambda ns, ops, prm: getattr(ns.fx.LinCombFxp(ops[0], False), "assert_" + n)(prm))(nm),
                      (lambda r: lambda v, prm: r(v[0], prm * (1 << env.bind().fx.resolution)))(rel), params=[-1, 0, 1]))
        K.append(Kind("fxp.assert_%s(x,float const)" % nm, 1,
                      (lambda n: lambda ns, ops, prm: getattr(ns.fx.LinCombFxp(ops[0], False), "assert_" + n)(prm))(nm),
                      (lambda r: lambda v, prm: r(v[0], int(prm * (1 << env.bind().fx.resolution))))(rel), params=[0.5, -1.5]))
        # floats that are not numbers of the fixed-point range (written as strings in cases: JSON has no NaN): either refused
        # (today: ValueError / OverflowError from the conversion) or the relation Python's float comparison gives
        K.append(Kind("fxp.assert_%s(x,non-finite float)" % nm, 1,
                      (lambda n: lambda ns, ops, prm: getattr(ns.fx.LinCombFxp(ops[0], False), "assert_" + n)(float(prm)))(nm),
                      (lambda r: lambda v, prm: r(v[0] / float(1 << env.bind().fx.resolution), float(prm)))(rel), params=["nan", "inf", "-inf"]))
        K.append(Kind("fxp.assert_%s(x,secret int)" % nm, 2,
                      (lambda n: lambda ns, ops, prm: getattr(ns.fx.LinCombFxp(ops[0], False), "assert_" + n)(ops[1]))(nm),
                      (lambda r: lambda v, prm: r(v[0], v[1] * (1 << env.bind().fx.resolution)))(rel)))
    for nm, rel in cmpops:
        # integer assertion whose second operand is a fixed-point value (representation v[1], number v[1] / 2^r): either
        # refused (today: "Wrong type for LinComb") or the relation between the two NUMBERS - never between x and v[1]
        K.append(Kind("assert_%s(x,secret fxp)" % nm, 2,
                      (lambda n: lambda ns, ops, prm: getattr(ops[0], "assert_" + n)(ns.fx.LinCombFxp(ops[1], False)))(nm),
                      (lambda r: lambda v, prm: r(v[0] * (1 << env.bind().fx.resolution), v[1]))(rel)))
    # integer assertions with a FLOAT bound (a percentage, a computed threshold: 0.29 * 100 is 28.999999999999996): either
    # refused (today: "Wrong type for LinComb") or the relation Python gives between the integer and that float
    nearly = [1 - 2 ** -53, 1 + 2 ** -52, 3 - 1e-10, 2 + 1e-10, 1.5, 2.0, -1e-10, 0.29 * 100 - 27, -1.0 + 1e-12]
    for nm, rel in cmpops:
        K.append(Kind("assert_%s(x,float const)" % nm, 1, (lambda n: lambda ns, ops, prm: getattr(ops[0], "assert_" + n)(prm))(nm),
                      (lambda r: lambda v, prm: r(v[0], prm))(rel), params=nearly))
    K.append(Kind("assert_range(x,float bounds)", 1, lambda ns, ops, prm: ops[0].assert_range(prm[0], prm[1]),
                  lambda v, prm: prm[0] <= v[0] < prm[1], params=[(1 - 2 ** -53, 3), (0, 3 - 1e-10), (0.5, 2.5), (1 + 1e-10, 3.0)]))
    K.append(Kind("assert_range(x,fxp bounds)", 2,
                  lambda ns, ops, prm: ops[0].assert_range(ns.fx.LinCombFxp(ops[1], False), ns.fx.LinCombFxp(ops[1] + 2 * (1 << ns.fx.resolution), False)),
                  lambda v, prm: v[1] <= v[0] * (1 << env.bind().fx.resolution) < v[1] + 2 * (1 << env.bind().fx.resolution)))
    K.append(Kind("Array.assert_eq(int,fxp)", 2,
                  lambda ns, ops, prm: ns.ar.Array([ops[0]]).assert_eq(ns.ar.Array([ns.fx.LinCombFxp(ops[1], False)])),
                  lambda v, prm: v[0] * (1 << env.bind().fx.resolution) == v[1]))
    # arrays that still hold plain entries (Array([3, 4, 5]) keeps them until they are overwritten): today refused on a plain left
    # entry (AttributeError); if accepted, two different plain entries make the arrays unequal whatever the secret entries are
    K.append(Kind("Array.assert_eq(different plain entries)", 2,
                  lambda ns, ops, prm: ns.ar.Array([3, ops[0]]).assert_eq(ns.ar.Array([4, ops[1]])), lambda v, prm: False))
    K.append(Kind("Array.assert_eq(equal plain entries)", 2,
                  lambda ns, ops, prm: ns.ar.Array([3, ops[0]]).assert_eq(ns.ar.Array([3, ops[1]])), lambda v, prm: v[0] == v[1]))
    # the right-hand side given as a plain sequence instead of an Array (today refused: AttributeError): shorter, longer, empty,
    # or of the same length - never equal when the lengths differ
    K.append(Kind("Array.assert_eq(shorter plain list)", 2, lambda ns, ops, prm: ns.ar.Array([ops[0], ops[1]]).assert_eq([ops[0]]), lambda v, prm: False))
    K.append(Kind("Array.assert_eq(longer plain tuple)", 2, lambda ns, ops, prm: ns.ar.Array([ops[0], ops[1]]).assert_eq((ops[0], ops[1], 1)), lambda v, prm: False))
    K.append(Kind("Array.assert_eq(empty list)", 1, lambda ns, ops, prm: ns.ar.Array([ops[0]]).assert_eq([]), lambda v, prm: False))
    K.append(Kind("Array.assert_eq(plain list of the same length)", 2, lambda ns, ops, prm: ns.ar.Array([ops[0], ops[1]]).assert_eq([1, 2]), lambda v, prm: v[0] == 1 and v[1] == 2))
    K.append(Kind("Array.assert_eq(plain entry vs secret)", 2,
                  lambda ns, ops, prm: ns.ar.Array([ops[0], 3]).assert_eq(ns.ar.Array([ops[0], ops[1]])), lambda v, prm: v[1] == 3))
    # a history with a refusal in it: an assertion with another constant, then the same assertion with the bound given as a float
    # (refused: "Wrong type for LinComb") and caught, then the assertion proper with the int bound
    def _after_refusal(nm_):
        def call(ns, ops, prm):
            ops[1].assert_le(lim)
            try:
                getattr(ops[0], "assert_" + nm_)(float(prm))
            except Exception:
                pass
            getattr(ops[0], "assert_" + nm_)(prm)
        return call
    for nm, rel in cmpops:
        K.append(Kind("assert_%s(x,const) after a refused float bound" % nm, 2, _after_refusal(nm),
                      (lambda r_: lambda v, prm: v[1] <= lim and r_(v[0], prm))(rel), params=[1, -1]))
    # assertions on the OUTPUT of another operation (the quotient of a division is a fresh witness that the division itself
    # does not range-check - known finding K2 of C02 - so programs assert its range themselves)
    K.append(Kind("(x // 3).assert_positive()", 1, lambda ns, ops, prm: (ops[0] // 3).assert_positive(), lambda v, prm: 0 <= v[0] // 3 < lim))
    K.append(Kind("divmod(x, 3)[0].assert_positive()", 1, lambda ns, ops, prm: divmod(ops[0], 3)[0].assert_positive(), lambda v, prm: 0 <= v[0] // 3 < lim))
    K.append(Kind("(x // 2).assert_lt(c)", 1, lambda ns, ops, prm: (ops[0] // 2).assert_lt(prm), lambda v, prm: v[0] // 2 < prm and -lim < v[0] // 2, params=[1, 2]))
    # a value assembled by from_bits from entries that are NOT constrained bits (digit sums, raw wires - the API takes them) and
    # then declared n-bit: the declaration must decompose it, whatever from_bits "knows" about its width
    K.append(Kind("from_bits([x, y]).assert_positive(n)", 2, lambda ns, ops, prm: ns.rt.LinComb.from_bits([ops[0], ops[1]]).assert_positive(prm),
                  lambda v, prm: 0 <= v[0] + 2 * v[1] < (1 << prm), params=[2, 3]))
    K.append(Kind("from_bits([x + y, y]).to_bits(n)", 2, lambda ns, ops, prm: ns.rt.LinComb.from_bits([ops[0] + ops[1], ops[1]]).to_bits(prm),
                  lambda v, prm: 0 <= v[0] + 3 * v[1] < (1 << prm), params=[2]))
    # arrays of different lengths are not equal whatever the entries are (today: refused with ValueError)
    K.append(Kind("Array.assert_eq(longer,shorter)", 2,
                  lambda ns, ops, prm: ns.ar.Array([ops[0], ops[1]]).assert_eq(ns.ar.Array([ops[0]])), lambda v, prm: False))
    K.append(Kind("Array.assert_eq(shorter,longer)", 2,
                  lambda ns, ops, prm: ns.ar.Array([ops[0]]).assert_eq(ns.ar.Array([ops[0], ops[1]])), lambda v, prm: False))
    # nested arrays with the same number of rows but rows of other lengths are not equal, whatever the entries are
    K.append(Kind("Array.assert_eq(ragged rows)", 2,
                  lambda ns, ops, prm: ns.ar.Array([ns.ar.Array([ops[0], ops[1]]), ns.ar.Array([ns.rt.LinComb.ONE_SAFE * 1])]).assert_eq(
                      ns.ar.Array([ns.ar.Array([ops[0]]), ns.ar.Array([ops[1], 1])])),
                  lambda v, prm: False))
    K.append(Kind("Array.assert_eq(missing last entry)", 2,
                  lambda ns, ops, prm: ns.ar.Array([ns.ar.Array([ops[0], ops[1]]), ns.ar.Array([ops[0], ops[1]])]).assert_eq(
                      ns.ar.Array([ns.ar.Array([ops[0], ops[1]]), ns.ar.Array([ops[0]])])),
                  lambda v, prm: False))
    K.append(Kind("Array.assert_eq", 2,
                  lambda ns, ops, prm: ns.ar.Array([ops[0], ops[1]]).assert_eq(ns.ar.Array([ns.rt.LinComb.ONE_SAFE * 1, ops[0]])),
                  lambda v, prm: v[0] == 1 and v[1] == v[0]))
    K.append(Kind("assert_zero", 1, lambda ns, ops, prm: ops[0].assert_zero(), lambda v, prm: v[0] == 0))
    K.append(Kind("assert_nonzero", 1, lambda ns, ops, prm: ops[0].assert_nonzero(), lambda v, prm: v[0] != 0))
    K.append(Kind("assert_positive()", 1, lambda ns, ops, prm: ops[0].assert_positive(), lambda v, prm: 0 <= v[0] < lim))
    K.append(Kind("assert_positive(n)", 1, lambda ns, ops, prm: ops[0].assert_positive(prm),
                  lambda v, prm: 0 <= v[0] < (1 << prm), params=list(range(0, b + 3))))
    from harness.intlike import IntLike
    K.append(Kind("assert_positive(integer-like n)", 1, lambda ns, ops, prm: ops[0].assert_positive(IntLike(prm)),
                  lambda v, prm: 0 <= v[0] < (1 << prm), params=[0, 1, b - 1, b + 1]))
    K.append(Kind("to_bits(n)", 1, lambda ns, ops, prm: ops[0].to_bits(prm),
                  lambda v, prm: 0 <= v[0] < (1 << prm), params=list(range(0, b + 3))))
    K.append(Kind("assert_range(lo,hi)", 1, lambda ns, ops, prm: ops[0].assert_range(prm[0], prm[1]),
                  lambda v, prm: prm[0] <= v[0] < prm[1],
                  params=[(0, 1), (0, 3), (-2, 2), (1, lim), (-lim + 1, 1), (2, 2), (0, lim - 1), (0, lim + 2), (-1, lim + 1), (0, 2 * lim)]))
    # the same assertions with a caller-supplied error message (err=...): the message must not change what is enforced
    K.append(Kind("assert_range(lo,hi,err)", 1, lambda ns, ops, prm: ops[0].assert_range(prm[0], prm[1], err="custom message"),
                  lambda v, prm: prm[0] <= v[0] < prm[1],
                  params=[(0, 3), (1, lim), (0, lim + 2), (-1, lim + 1), (0, 2 * lim), (-lim, lim), (-lim - 1, 2)]))
    K.append(Kind("assert_positive(n,err)", 1, lambda ns, ops, prm: ops[0].assert_positive(prm, err="custom message"),
                  lambda v, prm: 0 <= v[0] < (1 << prm), params=[0, 1, b, b + 1]))
    for nm, rel in cmpops:
        K.append(Kind("assert_%s(x,const,err)" % nm, 1,
                      (lambda n: lambda ns, ops, prm: getattr(ops[0], "assert_" + n)(prm, err="custom message"))(nm),
                      (lambda r: lambda v, prm: r(v[0], prm))(rel), params=[-lim, 0, 1, lim]))
    K.append(Kind("assert_zero(err)", 1, lambda ns, ops, prm: ops[0].assert_zero(err="custom message"), lambda v, prm: v[0] == 0))
    K.append(Kind("assert_nonzero(err)", 1, lambda ns, ops, prm: ops[0].assert_nonzero(err="custom message"), lambda v, prm: v[0] != 0))
    K.append(Kind("fxp.assert_range(lo,hi)", 1,
                  lambda ns, ops, prm: ns.fx.LinCombFxp(ops[0], False).assert_range(prm[0], prm[1]),
                  lambda v, prm, _r=None: prm[0] * (1 << env.bind().fx.resolution) <= v[0] < prm[1] * (1 << env.bind().fx.resolution),
                  params=[(0, 1), (-1, 1)]))
    K.append(Kind("fxp.assert_range(non-finite bounds)", 1,
                  lambda ns, ops, prm: ns.fx.LinCombFxp(ops[0], False).assert_range(float(prm[0]), float(prm[1])),
                  lambda v, prm, _r=None: float(prm[0]) <= v[0] / float(1 << env.bind().fx.resolution) < float(prm[1]),
                  params=[("0", "nan"), ("nan", "1"), ("-inf", "1"), ("0", "inf"), ("-inf", "nan")]))
    K.append(Kind("LinCombBool(x)", 1, lambda ns, ops, prm: ns.bo.LinCombBool(ops[0]), lambda v, prm: v[0] in (0, 1)))
    K.append(Kind("_ensurebool(x)", 1, lambda ns, ops, prm: ns.bo.LinCombBool._ensurebool(ops[0]), lambda v, prm: v[0] in (0, 1)))
    K.append(Kind("PrivValBool", 1, lambda ns, ops, prm: None, lambda v, prm: v[0] in (0, 1), optype="PB"))
    K.append(Kind("fxp.assert_positive", 1, lambda ns, ops, prm: ns.fx.LinCombFxp(ops[0], False).assert_positive(),
                  lambda v, prm: 0 <= v[0] < lim))
    K.append(Kind("fxp.assert_nonzero", 1, lambda ns, ops, prm: ns.fx.LinCombFxp(ops[0], False).assert_nonzero(),
                  lambda v, prm: v[0] != 0))
    K.append(Kind("fxp.assert_zero", 1, lambda ns, ops, prm: ns.fx.LinCombFxp(ops[0], False).assert_zero(),
                  lambda v, prm: v[0] == 0))
    # declared bounded integer: PackIntMod(mod).unpack on secret bits (operand = the integer the bits encode)
    K.append(Kind("PackIntMod(m).unpack(LinComb bits)", 1,
                  lambda ns, ops, prm: ns.pk.PackIntMod(prm).unpack([x.lc for x in ops[0].to_bits((prm - 1).bit_length())], 0),
                  lambda v, prm: 0 <= v[0] < prm, params=[1, 2, 3, 5, 6, 7, 8]))
    K.append(Kind("PackIntMod(m).unpack(pack(x))", 1,
                  lambda ns, ops, prm: ns.pk.PackIntMod(prm).unpack(ns.pk.PackIntMod(prm).pack(ops[0]), 0),
                  lambda v, prm: 0 <= v[0] < prm, params=[1, 2, 3, 5, 6, 7, 8]))
    return K


def attempt(kind, vals, prm, p, b, r, ignore=False):
    """run the assertion on fresh secret operands; returns (accepted?, trace snapshot, operand vars, exception)"""
    ns = env.reset(p, b, r)
    if ignore:
        ns.rt.ignore_errors(True)
    rec = ns.rec
    ops, opvars = [], []
    try:
        for v in vals:
            opvars.append(len(rec.vals))
            if kind.optype == "PB":
                ops.append(ns.bo.LinCombBool(ns.rt.PrivVal(v)) if ignore else ns.bo.PrivValBool(v))
            else:
                ops.append(ns.rt.PrivVal(v))
        kind.call(ns, ops, prm)
    except Exception as e:
        return False, None, opvars, e
    return True, rec.snapshot(), opvars, None


def satisfiable(trace, opvars, opvals, budget=20000):
    p = trace["p"]
    fixed = {0: 1}
    for var, v in zip(opvars, opvals):
        fixed[var] = v % p
    free = [v for v in range(1, len(trace["vals"])) if v not in fixed]
    s = r1cs.Search(trace["cons"], p, fixed, free, budget=budget)
    try:
        for sol in s.solutions():
            return True
    except r1cs.Budget:
        return None
    return False


def check_kind(kind, prm, p, b, r, stats, known, found):
    lim = 1 << b
    if kind.nops == 1:
        window = [(ir_c,) for ir_c in range(-(p // 2), p // 2 + 1)]
    else:
        w = range(-lim - 2, lim + 3)
        window = list(itertools.product(w, w))
    # accepted set A by actually calling, relation R by definition
    A, R = set(), set()
    trace, opvars = None, None
    for vals in window:
        ok, tr, ov, exc = attempt(kind, vals, prm, p, b, r)
        if ok:
            A.add(vals)
            if trace is None:
                trace, opvars = tr, ov
                canon = r1cs.canonical(tr)
        if kind.rel(vals, prm):
            R.add(vals)
    label = "%s%s" % (kind.name, "" if prm is None else "[%s]" % (prm,))
    case = {"kind": kind.name, "param": prm, "p": p, "b": b, "r": r}
    if trace is None:
        stats.case(None, False, ("never-accepted:" + kind.name,))
        # nothing accepted in the window. With error checking switched off the same call may run: what it emits must then be
        # unsatisfiable for operand values for which the relation is false (the assertion is in the circuit or it is nowhere)
        for vals in window[:: max(1, len(window) // 9)][:9]:
            ok, tr, ov, exc = attempt(kind, vals, prm, p, b, r, ignore=True)
            if ok and not kind.rel(vals, prm) and satisfiable(tr, ov, vals):
                key = "%s.ignored-false-assertion-satisfiable" % kind.name
                if key not in found and key not in known:
                    found[key] = {"case": dict(case, vals=list(vals), ignore=True), "key": key,
                                  "msg": "%s (p=%d, bitlength %d): refused for every operand value normally, but with errors ignored it runs for operand %r, for which the relation is false, and what it emits is satisfiable" % (label, p, b, vals)}
        return
    # circuit on the error path == circuit of the accepted call (observation point of the property)
    bad_samples = [v for v in window if v not in A][:: max(1, len(window) // 7)][:7]
    for vals in bad_samples:
        ok, tr, ov, exc = attempt(kind, vals, prm, p, b, r, ignore=True)
        if ok and r1cs.canonical(tr) != canon:
            key = "%s.error-path-circuit-differs" % kind.name
            if key in known:
                stats.excluded[key] += 1
            elif key not in found:
                found[key] = {"case": dict(case, vals=list(vals)), "key": key,
                              "msg": "%s: the circuit emitted under ignore_errors for operand %r differs from the accepted call's" % (label, vals)}
    S = set()
    for vals in window:
        sat = satisfiable(trace, opvars, vals)
        if sat is None:
            stats.inconclusive["budget"] += 1
            continue
        if sat:
            S.add(vals)
    nt = 0 < len(R) < len(window) and 0 < len(S) < len(window)
    stats.case(case, nt, ("kind:" + kind.name,), sample_cap=4)
    stats.extra["operand_values_decided"] = stats.extra.get("operand_values_decided", 0) + len(window)

    def report(sub, vals, msg):
        key = "%s.%s" % (kind.name, sub)
        if key in known:
            stats.excluded[key] += 1
        elif key not in found:
            found[key] = {"case": dict(case, vals=list(vals)), "key": key, "msg": "%s (p=%d, bitlength %d): %s" % (label, p, b, msg)}
    unsound = sorted(S - R, key=lambda v: tuple(abs(x) for x in v))
    if unsound:
        report("satisfiable-though-false", unsound[0],
               "relation is false for operand %r yet the emitted constraints are satisfiable (%d such values, e.g. %r)" % (
                   unsound[0], len(unsound), unsound[:5]))
    incomplete = sorted(A - S, key=lambda v: tuple(abs(x) for x in v))
    if incomplete:
        report("accepted-but-unsatisfiable", incomplete[0],
               "call accepted operand %r but the constraints are unsatisfiable for it" % (incomplete[0],))
    extra = sorted((S & R) - A, key=lambda v: tuple(abs(x) for x in v))
    if extra:
        report("circuit-wider-than-runtime-check", extra[0],
               "operand %r is rejected by the run-time check but satisfies the circuit (%d such values): in-circuit relation differs from the run-time one" % (
                   extra[0], len(extra)))


def shard(items, p, b, r):
    stats = core.Stats()
    known = core.load_known("C03")
    found = {}
    ks = {k.name: k for k in kinds(b)}
    for name, prm in items:
        check_kind(ks[name], prm, p, b, r, stats, known, found)
    stats.violations = list(found.values())
    return stats


def replay(case):
    if case.get("part") == "width":
        from harness.checks import c16
        return c16.replay(case)
    found = {}
    st = core.Stats()
    prm = case["param"]
    if isinstance(prm, list):
        prm = tuple(prm)
    ks = {k.name: k for k in kinds(case["b"])}
    check_kind(ks[case["kind"]], prm, case["p"], case["b"], case["r"], st, {}, found)
    if found:
        return "; ".join(v["msg"] for v in found.values())
    return None


def run(ctx):
    from harness.checks.c05 import replay_known
    ctx.rule = RULE
    ctx.assumptions = ["small prime fields p > 2^(2b+2): enumeration of the witness space is complete per instance",
                       "recorder, search engine"]
    cfgs = [(67, 2, 1), (257, 3, 1)] if ctx.tier == "quick" else [(67, 2, 0), (67, 2, 1), (257, 3, 1), (257, 3, 2), (1031, 4, 1)]
    total = core.Stats()
    for p, b, r in cfgs:
        items = [(k.name, prm) for k in kinds(b) for prm in k.params]
        # two-operand kinds are the expensive ones: spread round-robin
        jobs = [dict(items=items[i::16], p=p, b=b, r=r) for i in range(16)]
        total.merge_json(core.run_shards("harness.checks.c03", "shard", jobs).to_json())
    # declared widths beyond a machine word in the real field (shared with C16: n bits come back; an (n+1)-bit value cannot
    # satisfy what to_bits(n) / assert_positive(n) emit)
    from harness.recorder import BN128
    total.merge_json(core.run_shards("harness.checks.c16", "widths_shard", [dict(bs=[], p=BN128), dict(bs=[], p=BN128)][:1]).to_json())
    total.extra["configs"] = [list(c) for c in cfgs]
    ctx.stats = total
    ctx.exhaustive = True
    replay_known(ctx, replay)
