"""C02 soundness: the emitted constraints determine every result uniquely from the operands."""
import itertools

from hypothesis import given, strategies as st

from harness import core, ir, r1cs, opgrid, env, refsem

RULE = ("(a) single operations: every value-returning operator x operand-type combination (secret/secret, "
        "secret/constant, constant/secret) x a complete pool of operand values at (p=67,b=2) and (p=257,b=3) [thorough: "
        "also (1031,4) and real fields]; (b) compositions: generated programs of 2-5 operations in small fields; (c) histories: every "
        "operation executed under a false guard and then again at top level on the same operand objects - the second "
        "result must be forced by unit propagation or survive a sampled search. The "
        "honest run is recorded; the constant-one wire and the input wires are pinned, every other variable is freed and "
        "ALL satisfying assignments are enumerated (unit propagation + branching over all of F_p: complete for the "
        "instance in small fields; candidate-set branching in real fields = heuristic). Oracle: in every satisfying "
        "assignment every result wire expression has its honest value (booleans thereby in {0,1}). Counterexamples are "
        "re-verified by plain evaluation. Additionally, with error checking off and integer operands that are not bits: when the recorded "
        "witness satisfies every emitted constraint, every boolean-typed result in it must be 0 or 1 (an explicit satisfying assignment, no search). Non-trivial = the operation allocated >= 1 free variable and the search "
        "visited >= 2 nodes; distinct by (program digest).")
RULE += " Extensions (seeded rounds 10-15): a pass with error checking off over integer operands that are not bits (a satisfying assignment with an ill-typed boolean result), two nested true secret guards, operations refused at a small bitlength and repeated on the same operands at a larger one, values reassembled from raw wires and decomposed again."


VALUE_OPS = (refsem.BINARY + ["neg", "abs", "invert", "check_zero", "check_nonzero", "check_positive", "check_positive_n", "ite",
                              "if_else", "to_bits", "to_bits_n", "toF", "ensurefxp", "pack_int", "frombits_tobits", "frombits_shift", "unpack_pack"])
# families with a listed known finding: excluded from compositions by construction
COMPOSE_OPS = [n for n in ir.OPS if n not in ("val", "ggh", "permute", "poseidon", "poseidon1")]


def result_leaves(m, skip=0):
    out = []
    for i in range(skip, len(m.vals)):
        for path, leaf in ir.secret_leaves(m.ns, m.vals[i], "v%d" % i):
            out.append((path, leaf.lc.d, m.types[i]))
    return out


def bool_leaves(ns, x, path):
    """(path, LinComb) of every declared boolean reachable from x"""
    t = ir.classify(ns, x)
    if t == "B":
        yield path, x.lc
    elif t == "A":
        for i, y in enumerate(x.arr):
            yield from bool_leaves(ns, y, "%s.arr[%d]" % (path, i))
    elif t in "LT":
        for i, y in enumerate(x):
            yield from bool_leaves(ns, y, "%s[%d]" % (path, i))


def k_shaped(asg, p, honest=None, loose_var=None):
    """Is this differing assignment exactly of the form the listed findings allow?  K2: every integer
    divmod call still satisfies q'*d + r' = a with 0 <= r' < d (only the missing range check on q is
    used); K1: the output of a bitwise-with-constant is a free variable. A differing assignment is shaped
    if all divmod calls are of that form and at least one K1 output / K2 quotient differs from its honest
    value (what else may differ is decided by the second stage: pinning those variables)."""
    if loose_var is not None:
        return loose_var in env.k1_results
    kvars = list(env.k1_results) + list(env.k2_quotients)
    if not kvars:
        return False
    if honest is not None and not any(asg.get(v, 0) % p != honest[v] % p for v in kvars):
        return False
    ev = lambda d: sum(c * asg.get(v, 0) for v, c in d.items()) % p
    for ql, rl, al, dl in env.k2_calls:
        q, r, a, d = ev(ql), ev(rl), ev(al), ev(dl)
        if not (0 <= r < d and (q * d + r - a) % p == 0):
            return False
    return True


def analyse(m, nargs, budget=30000, limit=400, candidates=None, pin=(), allow_shaped=False):
    """allow_shaped: differing assignments that are k_shaped are counted (returned as status
    'shaped') instead of being reported, and the enumeration goes on"""
    """returns (status, nodes, counterexample or None). counterexample = dict(path, honest, other, assignment)"""
    rec = m.ns.rec
    p = rec.P
    fixed = {0: 1}
    for v in list(m.input_vars) + list(pin):
        fixed[v] = rec.vals[v] % p
    free = [v for v in range(1, len(rec.vals)) if v not in fixed]
    leaves = result_leaves(m, nargs)
    honest = [r1cs.lc_value(d, rec.vals, p) for _, d, _ in leaves]
    if not free:
        return "trivial", 0, None
    s = r1cs.Search(rec.cons, p, fixed, free, budget=budget, candidates=candidates)
    nsol = 0
    shaped = 0
    try:
        for asg, dontcare in s.solutions():
            nsol += 1
            dc = set(dontcare)
            full = dict(asg)
            for v in dc:
                full[v] = 0
            for (path, d, t), h in zip(leaves, honest):
                loose = [v for v, c in d.items() if v in dc and c % p]
                if loose:
                    if allow_shaped and all(k_shaped(full, p, None, lv) for lv in loose):
                        shaped += 1
                        continue
                    full[loose[0]] = 1
                    alt = dict(full)
                    if not r1cs.verify(rec.cons, p, alt):
                        raise core.HarnessError("search produced a non-solution (dontcare)")
                    return "counterexample", s.nodes, {"path": path, "honest": h, "other": "any (variable v%d is unconstrained)" % loose[0],
                                                        "assignment": {str(k): v for k, v in alt.items()}, "unconstrained": True}
                val = sum(c * full[v] for v, c in d.items()) % p
                if val != h:
                    if allow_shaped and k_shaped(full, p, rec.vals):
                        shaped += 1
                        break
                    if not r1cs.verify(rec.cons, p, full):
                        raise core.HarnessError("search produced a non-solution")
                    return "counterexample", s.nodes, {"path": path, "honest": h, "other": val,
                                                        "assignment": {str(k): v for k, v in full.items()}, "unconstrained": False}
            if nsol >= limit:
                return "partial", s.nodes, None
    except r1cs.Budget:
        return "budget", s.nodes, None
    if nsol == 0:
        raise core.HarnessError("honest witness exists but search found no solution")
    if shaped:
        return "shaped", s.nodes, None
    return ("complete" if s.complete else "heuristic"), s.nodes, None


def explain(m, nargs, budget, candidates=None):
    """A counterexample exists. It is explained by the listed findings iff (1) every differing
    satisfying assignment has exactly the shape those findings allow (k_shaped) and (2) with the
    variables they leave free (K2 quotients, K1 results) pinned to their honest values no
    counterexample remains. Returns (bucket key or '', unexplained counterexample or None)."""
    k1, k2 = list(env.k1_results), list(env.k2_quotients)
    if not k1 and not k2:
        return "", None
    status, nodes, cex2 = analyse(m, nargs, budget=budget, candidates=candidates, allow_shaped=True, limit=4000)
    if cex2 is not None:
        return "", cex2
    if status in ("budget", "partial"):
        return "inconclusive", None
    status, nodes, cex2 = analyse(m, nargs, budget=budget, candidates=candidates, pin=k1 + k2)
    if cex2 is not None:
        return "", cex2
    if status in ("budget", "partial"):
        return "inconclusive", None
    key = "+".join(([K1] if k1 else []) + ([K2] if k2 else []))
    return key, None


K1 = "K1-bitwise-with-constant-result-unconstrained"
K2 = "K2-divmod-quotient-not-range-checked"


def judge_single(cfg, name, args, budget=30000, mode="normal"):
    prog = opgrid.single(cfg, name, args, mode)
    m = ir.run_program(prog)
    if m.raised is not None:
        return "raised", None, prog, 0, m
    status, nodes, cex = analyse(m, len(args), budget=budget, candidates=lambda v: cand_real(m, v))
    return status, cex, prog, nodes, m


def cand_real(m, v):
    rec = m.ns.rec
    h = rec.vals[v]
    p = rec.P
    return [0, 1, 2, p - 1, h, h + 1, h - 1, -h, 1 << m.cfg["b"], (1 << m.cfg["b"]) - 1, (p + 1) // 2]


def grid_shard(cells, b, p, pool_extra=1, budget=30000):
    stats = core.Stats()
    known = core.load_known("C02")
    found = {}
    lim = 1 << b
    cfg = {"p": p, "b": b, "r": 1, "ignore": False}
    ipool = list(range(-lim - pool_extra, lim + pool_extra + 1))
    for name, ts in cells:
        op = ir.OPS[name]
        pools = []
        for pos, t in enumerate(ts):
            if pos in op.params:
                pools.append(list(range(0, b + 2)))
            elif t in "Bb":
                pools.append([0, 1])
            elif t == "f":
                pools.append([["f", 1, 2], ["f", 3, 1], ["f", -3, 2]])
            elif t == "F":
                pools.append([v for v in ipool if abs(v) <= lim // 2 + 1])
            else:
                pools.append(ipool)
        if name in ("ite", "if_else"):
            pools = [pools[0], [-1, 0, 2], [0, 1, 3]]
        if name == "pow":
            pools[1] = [v for v in pools[1] if 0 <= v <= 3] if ts[1] in "ib" else pools[1]
        combos = [(vals, "normal") for vals in itertools.product(*pools)]
        # a thinned copy of the cell inside a true secret guard that contains a public-condition block (and the reverse nesting)
        combos += [(vals, ("guard1p", "guardp1", "guard1", "guard11")[k % 4]) for k, (vals, _) in enumerate(combos[::3])]
        for vals, mode in combos:
            args = [(t, "priv" if i % 2 == 0 else "pub", v) for i, (t, v) in enumerate(zip(ts, vals))]
            status, cex, prog, nodes, m = judge_single(cfg, name, args, budget, mode)
            labels = ["op:" + name, "status:" + status, "mode:" + mode]
            nt = status in ("complete", "heuristic", "counterexample") and nodes >= 2
            if status in ("budget", "partial"):
                stats.inconclusive[status] += 1
            stats.case([name, ts, [str(v) for v in vals], p, b, mode], nt, labels, sample_cap=2)
            if cex is not None:
                why, cex2 = explain(m, len(args), budget, candidates=lambda v: cand_real(m, v))
                if why == "inconclusive":
                    stats.inconclusive["explain-budget"] += 1
                    continue
                if cex2 is not None:
                    cex = cex2
                key = why if why else "%s.%s.nonunique" % (name, ts)
                if why and all(k in known for k in why.split("+")):
                    stats.excluded[key] += 1
                elif key not in found:
                    if not why:
                        prog = dict(prog, pin_known=True)
                    found[key] = {"case": prog, "key": key,
                                  "msg": ("" if mode == "normal" else "[%s] " % mode) + "%s%r on %s (p=%s, bitlength %d): result %s is %d honestly but the constraints also admit %s with the operands unchanged" % (
                                      name, tuple(vals), ts, p, b, cex["path"], ir.centered(cex["honest"], m.p), cex["other"])}
        # "results typed boolean are forced to 0 or 1": with error checking off the library computes on integer operands that are
        # not bits without raising; if the witness recorded then satisfies EVERY constraint, it is a satisfying assignment, and a
        # boolean-typed result outside {0,1} in it is a result the constraints do not force to be a bit (sound: one explicit
        # satisfying assignment; no search involved)
        if any(t == "I" and pos not in op.params for pos, t in enumerate(ts)):
            small = [[v for v in pl if not isinstance(v, int) or -1 <= v <= 3] for pl in pools]
            for vals in itertools.product(*small):
                if not any(t == "I" and v not in (0, 1) for t, v in zip(ts, vals)):
                    continue
                args = [(t, "priv" if i % 2 == 0 else "pub", v) for i, (t, v) in enumerate(zip(ts, vals))]
                prog = opgrid.single(cfg, name, args, "ignore")
                m = ir.run_program(prog)
                stats.case([name, ts, [str(v) for v in vals], p, b, "ignore-nonbit"], False, ["op:" + name, "mode:ignore-nonbit",
                           "status:" + ("raised" if m.raised is not None else "ran")], sample_cap=1)
                if m.raised is not None:
                    continue
                snap = m.ns.rec.snapshot()
                if r1cs.evaluate(snap):
                    continue
                for i in range(len(args), len(m.vals)):
                    for path, leaf in bool_leaves(m.ns, m.vals[i], "v%d" % i):
                        val = r1cs.lc_value(leaf.lc.d, m.ns.rec.vals, m.ns.rec.P) % m.ns.rec.P
                        key = "%s.%s.boolean-result-not-a-bit" % (name, ts)
                        if val not in (0, 1) and key not in found:
                            found[key] = {"case": dict(prog, nonbit=True), "key": key,
                                          "msg": "%s%r on %s (p=%s): every emitted constraint is satisfied by an assignment in which the boolean-typed result %s is %d" % (
                                              name, tuple(vals), ts, p, path, ir.centered(val, m.ns.rec.P))}
    stats.violations = list(found.values())
    return stats


def history_case(cfg, name, args):
    """The operation is first executed under a FALSE guard and then again, on the same operand objects,
    at top level. The second result must still be uniquely determined by the inputs (anything remembered
    from the first, inert execution is unconstrained). Returns (status, message or None, program)."""
    prog = opgrid.single(cfg, name, args, "guard0")
    n = len(args)
    prog["stmts"].append(["op", name, list(range(n))])
    k = [0]

    def after(m, s, out):
        if s is not prog["stmts"][-1]:
            k[0] = len(m.vals)
    m = ir.run_program(prog, after=after)
    if m.raised is not None:
        return "raised", None, prog
    if env.k1_results or env.k2_quotients:
        return "known-family", None, prog
    rec = m.ns.rec
    p = rec.P
    leaves = result_leaves(m, k[0])
    if not leaves:
        return "no-secret-result", None, prog
    honest = [r1cs.lc_value(d, rec.vals, p) for _, d, _ in leaves]
    fixed = {0: 1}
    for v in m.input_vars:
        fixed[v] = rec.vals[v] % p
    f = r1cs.forced(rec.cons, p, fixed)
    if f is None:
        raise core.HarnessError("propagation contradicts the honest witness")
    if all(v in f for _, d, _ in leaves for v in d):
        for (path, d, t), h in zip(leaves, honest):
            if sum(c * f[v] for v, c in d.items()) % p != h:
                return "counterexample", "result %s forced to another value than the honest one" % path, prog
        return "forced", None, prog
    free = [v for v in range(1, len(rec.vals)) if v not in fixed]
    hv = rec.vals
    srch = r1cs.Search(rec.cons, p, fixed, free, budget=4000, small_limit=0,
                       candidates=lambda v: [0, 1, hv[v], hv[v] + 1, 1 - hv[v], p - 1])
    try:
        for asg, dc in srch.solutions():
            full = dict(asg)
            for v in dc:
                full[v] = 0
            for (path, d, t), h in zip(leaves, honest):
                loose = [v for v, c in d.items() if v in dc and c % p]
                val = sum(c * full[v] for v, c in d.items()) % p
                if loose or val != h:
                    if loose:
                        full[loose[0]] = 1
                    if not r1cs.verify(rec.cons, p, full):
                        raise core.HarnessError("search produced a non-solution")
                    return "counterexample", ("%s%r executed under a false guard and then again at top level on the same operands: "
                                              "the second result %s is %d honestly but the constraints also admit %d" % (
                                                  name, tuple(a[2] for a in args), path, ir.centered(h, p),
                                                  ir.centered(sum(c * full[v] for v, c in d.items()) % p, p))), prog
    except r1cs.Budget:
        return "budget", None, prog
    return "sampled", None, prog


def history_shard(cells, b, p):
    stats = core.Stats()
    found = {}
    lim = 1 << b
    cfg = {"p": p, "b": b, "r": 1, "ignore": False}
    ipool = [-1, 0, 1, 2, lim - 1]
    for name, ts in cells:
        op = ir.OPS[name]
        pools = []
        for pos, t in enumerate(ts):
            if pos in op.params:
                pools.append([1, b])
            elif t in "Bb":
                pools.append([0, 1])
            elif t == "f":
                pools.append([["f", 3, 2]])
            else:
                pools.append(ipool)
        for vals in itertools.product(*pools):
            args = [(t, "priv", v) for t, v in zip(ts, vals)]
            status, msg, prog = history_case(cfg, name, args)
            if status == "budget":
                stats.inconclusive["history-budget"] += 1
            stats.case([name, ts, [str(v) for v in vals], "false-guard-then-top"], status in ("forced", "sampled", "counterexample"),
                       ("history:" + status,), sample_cap=1)
            if msg:
                key = "%s.%s.history" % (name, ts)
                if key not in found:
                    found[key] = {"case": dict(prog, history=True), "msg": msg, "key": key}
    stats.violations = list(found.values())
    return stats


def compose_shard(seed, n_examples, budget=40000):
    stats = core.Stats()
    known = core.load_known("C02")

    @given(st.data())
    def test(data):
        draw = data.draw
        b = draw(st.sampled_from([2, 2, 3]))
        cfg = {"p": env.SMALL[b], "b": b, "r": draw(st.integers(0, 1)), "ignore": False}
        lim = 1 << b
        n = draw(st.integers(2, 5))
        m, labels = ir.generate(draw, st, cfg, n, ops=COMPOSE_OPS, allow_guard=False, p_out_of_domain=0.0,
                                value_strategy=st.integers(-lim, lim))
        if m.raised is not None:
            stats.case(None, False, ("gen:raised",))
            return
        rec = m.ns.rec
        if any(abs(v) >= rec.P // 2 for v in rec.vals):
            stats.case(None, False, ("gen:wraps",))
            return
        status, nodes, cex = analyse(m, 0, budget=budget)
        if status in ("budget", "partial"):
            stats.inconclusive[status] += 1
        nt = status == "complete" and nodes >= 2
        stats.case(m.program() if nt else None, nt, set(labels) | {"status:" + status})
        if cex is not None:
            why, cex2 = explain(m, 0, budget)
            if why == "inconclusive":
                stats.inconclusive["explain-budget"] += 1
                return
            if why and all(k in known for k in why.split("+")):
                stats.excluded[why] += 1
                return
            cex = cex2 or cex
            raise core.Violation(dict(m.program(), pin_known=not why), "composition: result %s is %d honestly but the constraints also admit %s with the inputs unchanged" % (
                cex["path"], ir.centered(cex["honest"], m.p), cex["other"]), why or "composition.nonunique")

    v = core.drive(test, seed, n_examples)
    return core.finish_shard(stats, v, replay)


def retry_shard(b, p):
    """A history with a refusal in it: the operation is first attempted at a bitlength too small for its operands (refused),
    the program catches that, raises runtime.bitlength and repeats the SAME operation on the SAME operand objects. The result of
    the repeated, now valid, call must be pinned down like that of a first call (complete witness search in a small field)."""
    stats = core.Stats()
    found = {}
    lim = 1 << b
    for name in ("floordiv", "mod", "divmod", "lt", "le", "gt", "ge", "rshift", "to_bits", "check_positive", "abs", "truediv"):
        op = ir.OPS[name]
        nargs = len(op.types)
        for ts in opgrid.type_combos(name):
            if any(t not in "Ii" for t in ts) or ts[0] != "I":
                continue
            for vals in ([(lim + 1, lim + 1), (lim + 3, lim - 1), (2 * lim + 1, 3), (lim + 2, lim)] if nargs == 2 else [(lim + 1,), (2 * lim + 1,)]):
                stmts = [["in", "priv" if i == 0 else "pub", t, v] if t == "I" else ["const", v] for i, (t, v) in enumerate(zip(ts, vals))]
                refs = list(range(nargs))
                prog = {"cfg": {"p": p, "b": b, "r": 0, "ignore": False},
                        "stmts": stmts + [["op", name, refs, "try"], ["setb", b + 2], ["op", name, refs]], "retry": True}
                m = ir.run_program(prog)
                stats.case([name, "".join(ts), list(vals), p, b], m.raised is None, ("retry-after-refusal:" + name, "retry:" + ("ran" if m.raised is None else "refused-again")), sample_cap=1)
                if m.raised is not None:
                    continue
                status, nodes, cex = analyse(m, nargs, budget=60000, candidates=lambda v: cand_real(m, v))
                if cex is not None:
                    why, cex2 = explain(m, nargs, 60000, candidates=lambda v: cand_real(m, v))
                    if why and why != "inconclusive" and all(k in core.load_known("C02") for k in why.split("+")):
                        stats.excluded[why] += 1
                        continue
                    if why == "inconclusive":
                        stats.inconclusive["explain-budget"] += 1
                        continue
                    cex = cex2 or cex
                    key = "%s.%s.retry" % (name, "".join(ts))
                    found.setdefault(key, {"case": dict(prog, pin_known=not why), "key": key,
                                           "msg": "%s%r on %s, refused at bitlength %d and repeated at bitlength %d on the same operands: result %s is %d honestly but the constraints also admit %s" % (
                                               name, tuple(vals), "".join(ts), b, b + 2, cex["path"], ir.centered(cex["honest"], m.p), cex["other"])})
    stats.violations = list(found.values())
    return stats


def replay(case):
    if case.get("history"):
        stmts = case["stmts"]
        n = len(stmts[-1][2])
        args = []
        for st_ in stmts[:n]:
            args.append((st_[2], st_[1], st_[3]) if st_[0] == "in" else ("f" if isinstance(st_[1], list) else "b" if isinstance(st_[1], bool) else "i", None, st_[1]))
        return history_case(case["cfg"], stmts[-1][1], args)[1]
    m = ir.run_program(case)
    if m.raised is not None:
        return None
    if case.get("nonbit"):
        if r1cs.evaluate(m.ns.rec.snapshot()):
            return None
        for i in range(len(m.vals)):
            for path, leaf in bool_leaves(m.ns, m.vals[i], "v%d" % i):
                val = r1cs.lc_value(leaf.lc.d, m.ns.rec.vals, m.ns.rec.P) % m.ns.rec.P
                if val not in (0, 1):
                    return "every emitted constraint is satisfied by an assignment in which the boolean-typed result %s is %d" % (path, ir.centered(val, m.ns.rec.P))
        return None
    status, nodes, cex = analyse(m, 0, budget=200000, candidates=lambda v: cand_real(m, v))
    if cex is None:
        return None
    if case.get("pin_known"):
        # replay of a not-explained violation: still a violation only if it survives pinning
        why, cex2 = explain(m, 0, 200000, candidates=lambda v: cand_real(m, v))
        if cex2 is None:
            return None
        cex = cex2
    return "result %s is %d honestly but the constraints also admit %s with the inputs unchanged" % (
        cex["path"], ir.centered(cex["honest"], m.p), cex["other"])


def cells():
    out = []
    for name in VALUE_OPS:
        for ts in opgrid.type_combos(name):
            if any(t in "LA" for t in ts):
                continue
            if "f" in ts and "F" not in ts:
                continue
            out.append((name, "".join(ts)))
    return out


def run(ctx):
    from harness.checks.c05 import replay_known
    ctx.rule = RULE
    ctx.assumptions = ["small-field enumeration is complete per circuit instance; transfer to 254-bit fields rests on C06 "
                       "(value-independent circuit shape) and p > 2^(2b+2)", "real-field search is a heuristic adversary",
                       "recorder + search engine (every counterexample re-verified by plain evaluation)"]
    cs = cells()
    if ctx.tier == "quick":
        grids = [dict(b=2, p=67, pool_extra=1), dict(b=3, p=257, pool_extra=0)]
        comp = [dict(seed=ctx.seed * 1000 + i, n_examples=40) for i in range(16)]
    else:
        grids = [dict(b=2, p=67, pool_extra=2), dict(b=3, p=257, pool_extra=2), dict(b=4, p=1031, pool_extra=1),
                 dict(b=2, p="bn128", pool_extra=1), dict(b=3, p="bls12-381", pool_extra=1), dict(b=4, p="curve25519", pool_extra=0)]
        comp = [dict(seed=ctx.seed * 1000 + 100 + i, n_examples=1500) for i in range(16)]
    total = core.Stats()
    for g in grids:
        total.merge_json(core.run_shards("harness.checks.c02", "grid_shard",
                                         [dict(cells=cs[i::16], **g) for i in range(16)]).to_json())
    hb, hp = (2, 67) if ctx.tier == "quick" else (3, 257)
    total.merge_json(core.run_shards("harness.checks.c02", "history_shard",
                                     [dict(cells=cs[i::16], b=hb, p=hp) for i in range(16)]).to_json())
    total.merge_json(core.run_shards("harness.checks.c02", "compose_shard", comp).to_json())
    total.merge_json(core.run_shards("harness.checks.c02", "retry_shard", [dict(b=2, p=1031), dict(b=3, p=4099)] if ctx.tier == "quick" else
                                     [dict(b=2, p=1031), dict(b=3, p=4099), dict(b=4, p=16411), dict(b=2, p="bn128")]).to_json())
    total.extra["grids"] = grids
    total.extra["cells"] = len(cs)
    ctx.stats = total
    replay_known(ctx, replay)
