"""C08: guard state is restored on every exit path and nests as a conjunction."""
import hypothesis
from hypothesis import strategies as st
from hypothesis.stateful import RuleBasedStateMachine, rule, invariant, precondition, initialize

from harness import core, env, r1cs

RULE = ("rule-based state machine over the real module globals (guard, error-suppression flag, LinComb.ONE) with a model "
        "stack. Rules: enter a region (add_guard with a secret LinComb 0/1, a LinCombBool, or the int 1), leave "
        "(restore_guard), toggle ignore_errors at top level, run a generated tree of nested guarded(cond)(fn) calls / "
        "lazy if_then_else branches whose bodies do traced work, recurse, and raise a sentinel exception (an Exception subclass, a BaseException subclass, "
        "KeyboardInterrupt, SystemExit, GeneratorExit or StopIteration) at a chosen statement (caught at a chosen ancestor level), walk an if/elif/else or while block context through "
        "enter/elif/else/exit - also ill-formed blocks whose closing statement raises while merging (variable set in one branch "
        "only, unmergeable value) -, leave an _if/_while block open when a region ends, call a guarded GENERATOR function and consume the generator step by step in later steps (alone or two in lockstep: creating it ends the region), call a guarded function with positional, star and keyword arguments (handed through, result returned as is), and attempt invalid entries (constant 0, non-boolean value, wrong type) that must raise "
        "and change nothing. Invariant after every step: guard is None iff no secret condition is active; guard.value == "
        "AND of the active conditions and equals its wire expression on the recorded witness; error suppression == base "
        "flag OR some active condition is 0; LinComb.ONE is the guard inside and the safe constant outside; the constant "
        "k means k*guard inside and k outside; if_guard(fn) runs fn exactly when that conjunction is true; after a call tree or block walk the three globals are the identical "
        "objects as before. Non-trivial = history with an exceptional exit at depth >= 2 or a false guard under a true "
        "one, and every deterministic deep nesting (up to 150 / 200 levels, mixed forms, normal and exceptional exit); distinct by "
        "history digest.")
RULE += " Extensions (seeded rounds 10-15): guarded generator functions consumed step by step, argument passing through the decorator, abandoned block contexts finalised by the garbage collector at a later step, warnings turned into errors, refused attempts to open a block inside an open block."



class Sentinel(Exception):
    pass


class SentinelBase(BaseException):
    """an exit that is not an Exception subclass (like KeyboardInterrupt, SystemExit, GeneratorExit)"""


ABORTS = {"raise": Sentinel, "raise-base": SentinelBase, "raise-kbd": KeyboardInterrupt, "raise-exit": SystemExit,
          "raise-genexit": GeneratorExit, "raise-stopiter": StopIteration}
ABORT_TYPES = tuple(ABORTS.values())


tree_strategy = st.recursive(
    st.tuples(st.just("leaf"), st.sampled_from(["work", "raise", "cmp", "work", "raise-base", "raise-kbd", "raise-exit",
                                                "raise-genexit", "raise-stopiter", "open-if-raise", "open-while-raise", "open-if-return"])),
    lambda ch: st.tuples(st.just("node"), st.integers(0, 1), st.sampled_from(["lc", "bool", "ite_true", "ite_false", "int1"]),
                         st.lists(ch, min_size=1, max_size=3), st.booleans()),
    max_leaves=8)


def make_machine(stats):
    class GuardMachine(RuleBasedStateMachine):
        def __init__(self):
            super().__init__()
            self.ns = env.reset(None, 8, 0)
            self.rt = self.ns.rt
            self.stack = []      # (cond value or None for int1, bak)
            self.base = False
            self.hist = []
            self.exc_depth2 = False
            self.false_under_true = False
            self.leaked = []
            self.block_fault = False
            self.gens = []

        # -- helpers
        def active(self):
            return [v for v, _ in self.stack if v is not None]

        def triple(self):
            return (self.rt.guard, self.rt._ignore_errors, self.rt.LinComb.ONE)

        def fail(self, msg):
            raise core.Violation({"history": self.hist}, msg + " after history %r" % (self.hist,), "state")

        def mkcond(self, v, form):
            if form == "bool":
                return self.ns.bo.PrivValBool(v)
            if form == "int1":
                return 1
            return self.rt.PrivVal(v)

        # -- rules
        @initialize(strict=st.booleans())
        def warnings_policy(self, strict):
            """the program may run with warnings turned into exceptions (python -W error, pytest's filterwarnings = error): a
            warning the library issues while entering a region is then an exit path like any other"""
            import warnings
            self.hist.append(["warnings_as_errors", strict])
            self._wctx = warnings.catch_warnings()
            self._wctx.__enter__()
            if strict:
                warnings.simplefilter("error")

        @rule(v=st.integers(0, 1), form=st.sampled_from(["lc", "lc", "bool", "int1"]))
        def enter(self, v, form):
            self.hist.append(["enter", v, form])
            if form == "int1":
                v = None
            cond = self.mkcond(v if v is not None else 1, form)
            before = self.triple()
            try:
                bak = self.rt.add_guard(cond)
            except Warning as w:
                if any(a is not b for a, b in zip(before, self.triple())):
                    self.fail("add_guard raised %s (warnings are errors here) and left the guard state changed" % type(w).__name__)
                return
            if v == 0 and 1 in self.active() and 0 not in self.active():
                self.false_under_true = True
            self.stack.append((v, bak))

        @precondition(lambda self: len(self.stack) > 0)
        @rule()
        def leave(self):
            self.hist.append(["leave"])
            v, bak = self.stack.pop()
            self.rt.restore_guard(bak)

        @precondition(lambda self: len(self.stack) == 0)
        @rule(b=st.booleans())
        def toggle_ignore(self, b):
            self.hist.append(["ignore", b])
            self.rt.ignore_errors(b)
            self.base = b

        @rule(v=st.integers(0, 1), form=st.sampled_from(["lc", "bool"]), b=st.booleans(), how=st.sampled_from(["return", "raise"]))
        def region_with_toggle(self, v, form, b, how):
            """a region entered and left within this step in which the program itself switches error suppression (a helper that
            turns its checks back on - or off - when it is done): inside, the switch takes effect; leaving the region - by return
            or by an exception - puts guard, suppression and the constant back exactly as they were at entry"""
            self.hist.append(["region_with_toggle", v, form, b, how])
            cond = self.mkcond(v, form)
            before = self.triple()
            try:
                bak = self.rt.add_guard(cond)
            except Warning:
                return
            try:
                try:
                    self.rt.ignore_errors(b)
                    if bool(self.rt.ignore_errors()) != b:
                        self.fail("ignore_errors(%r) inside a region: ignore_errors() then reports %r" % (b, self.rt.ignore_errors()))
                    if how == "raise":
                        raise KeyError("the program's own")
                finally:
                    self.rt.restore_guard(bak)
            except KeyError:
                pass
            after = self.triple()
            if before[0] is not after[0] or bool(before[1]) != bool(after[1]) or before[2] is not after[2]:
                self.fail("a region (condition %d) in which the program called ignore_errors(%r) was left by %s: (guard, suppression, constant) was %r at entry and is %r afterwards"
                          % (v, b, how, (before[0], before[1]), (after[0], after[1])))

        @rule(kind=st.sampled_from(["zero", "nonbool", "type", "nonbool-bool"]))
        def bad_enter(self, kind):
            self.hist.append(["bad_enter", kind])
            before = self.triple()
            suppressed = self.rt.ignore_errors()
            try:
                if kind == "zero":
                    self.rt.add_guard(0)
                elif kind == "nonbool":
                    if suppressed:
                        return
                    self.rt.add_guard(self.rt.PrivVal(2))
                elif kind == "nonbool-bool":
                    self.rt.add_guard(5)
                else:
                    self.rt.add_guard("x")
            except (RuntimeError, TypeError):
                after = self.triple()
                if any(a is not b for a, b in zip(before, after)):
                    self.fail("a rejected add_guard(%s) changed the guard state" % kind)
                return
            self.fail("add_guard accepted an invalid condition (%s)" % kind)

        @rule(tree=tree_strategy, catch_level=st.integers(0, 3))
        def call_tree(self, tree, catch_level):
            self.hist.append(["call_tree", tree, catch_level])
            before = self.triple()
            rt, ns = self.rt, self.ns
            machine = self

            def run(node, depth, conds):
                if node[0] == "leaf":
                    what = node[1]
                    if what.startswith("open-") and depth == 0:
                        what = "work"      # an unclosed block outside every region is the user's own leak, not a region exit
                    if what.startswith("open-"):
                        # a block context is opened inside the region and never closed: the enclosing region's own
                        # restore (normal or exceptional exit) must still bring the state back
                        bv = ns.br.BranchingValues()
                        bv.x = rt.PrivVal(1)
                        (ns.br._if if "if" in what else ns.br._while)(ns.bo.PrivValBool(depth % 2), bv)       # the user-level call, context given explicitly
                        machine.leaked.append(bv)
                        if what.endswith("raise"):
                            if depth >= 2:
                                machine.exc_depth2 = True
                            raise Sentinel()
                        return
                    if what in ABORTS:
                        if depth >= 2:
                            machine.exc_depth2 = True
                        raise ABORTS[what]()
                    if what == "work":
                        x = rt.PrivVal(3) * rt.PrivVal(4)
                    else:
                        x = rt.PrivVal(3) < rt.PrivVal(4)
                    # if_guard(fn) (igprint is if_guard(print)) runs fn exactly when the effective guard is true or absent
                    ran = []
                    rt.if_guard(lambda: ran.append(1))()
                    want_run = all(machine.active() + conds)
                    if bool(ran) != want_run:
                        machine.fail("if_guard ran its function: %r, the conjunction of the enclosing conditions %r is %r" % (
                            bool(ran), machine.active() + conds, want_run))
                    machine.check_inside(conds)
                    return
                _, v, form, children, catches = node
                cond = machine.mkcond(v, "bool" if form.startswith("ite") else form)
                inner = conds + ([v] if form != "int1" else [])
                if v == 0 and form != "int1" and 1 in conds + machine.active() and 0 not in conds + machine.active():
                    machine.false_under_true = True
                snapshot = machine.triple()

                def body():
                    machine.check_inside(inner)
                    for ch in children:
                        if ch[0] == "leaf" and ch[1].startswith("open-") and ch is not children[-1]:
                            continue      # an unclosed block is only meaningful as the last thing a region does
                        leaks = ch[0] == "leaf" and ch[1].startswith("open-")
                        if catches and depth >= catch_level and not leaks:     # a leaked block is only undone when its region ends
                            try:
                                run(ch, depth + 1, inner)
                            except ABORT_TYPES:
                                machine.check_inside(inner)
                        else:
                            run(ch, depth + 1, inner)
                    return rt.PrivVal(1)
                try:
                    if form == "ite_true":
                        # lazily evaluated true branch runs under cond
                        ns.br.if_then_else(cond, body, rt.PrivVal(0))
                    elif form == "ite_false":
                        inner[-1] = 1 - v
                        ns.br.if_then_else(cond, rt.PrivVal(0), body)
                    else:
                        rt.guarded(cond)(body)()
                finally:
                    now = machine.triple()
                    if any(a is not b for a, b in zip(snapshot, now)):
                        machine.fail("guard state after a nested region (depth %d, cond %d, %s) is not the state before it" % (depth, v, form))
            try:
                run(tree, 0, [])
            except ABORT_TYPES:
                pass
            after = self.triple()
            if any(a is not b for a, b in zip(before, after)):
                self.fail("guard state after a call tree is not the state before it")

        @rule(conds=st.lists(st.integers(0, 1), min_size=1, max_size=3), has_else=st.booleans(), loop=st.booleans(),
              fault=st.sampled_from([None, None, "spurious", "missing", "unmergeable", "uncopyable"]))
        def block_walk(self, conds, has_else, loop, fault=None):
            """fault: the user's block is ill-formed, so that the statement which CLOSES a branch raises while merging
            (a later branch defines a variable the first did not, or omits one, or assigns something that cannot be
            merged): that exception leaves the region too, and the state must be the one before the block"""
            self.hist.append(["block", conds, has_else, loop, fault])
            before = self.triple()
            ns, rt = self.ns, self.rt
            ctx = ns.br.BranchingValues()
            ctx.x = rt.PrivVal(1)
            if fault == "uncopyable":
                ctx.gen = (i for i in range(3))      # a tracked variable that cannot be copied: ENTERING the block raises

            def branch_body(k, inc):
                ctx.x = ctx.x + inc
                if fault == "spurious" and k >= 1:
                    ctx.y = rt.PrivVal(5)
                elif fault == "missing" and k == 0:
                    ctx.y = rt.PrivVal(5)
                elif fault == "unmergeable" and k == len(conds) - 1:
                    ctx.x = object()
            try:
                if loop:
                    w = ns.br.WhileContext(ns.bo.PrivValBool(conds[0]), ctx)
                    self.check_inside([conds[0]])
                    acc = conds[0]
                    for k, c in enumerate(conds[1:]):
                        branch_body(k, 1)
                        w._while(ns.bo.PrivValBool(c))
                        acc = acc & c
                        self.check_inside([acc])
                    if fault:
                        branch_body(len(conds) - 1, 1)
                    w.end()
                else:
                    i = ns.br.IfContext(ns.bo.PrivValBool(conds[0]), ctx)
                    self.check_inside([conds[0]])
                    branch_body(0, 1)
                    none_before = 1 - conds[0]
                    for k, c in enumerate(conds[1:]):
                        i._elif(lambda c=c: ns.bo.PrivValBool(c))
                        self.check_inside([none_before & c])
                        branch_body(k + 1, 2)
                        none_before = none_before & (1 - c)
                    if has_else:
                        i._else()
                        self.check_inside([none_before])
                        branch_body(len(conds), 3)
                    i.end()
            except (RuntimeError, TypeError, AttributeError, ValueError) as e:
                if not fault:
                    raise
                self.block_fault = True
            after = self.triple()
            if any(a is not b for a, b in zip(before, after)):
                self.fail("guard state after a block context%s is not the state before it" % (
                    " whose closing statement raised (%s)" % fault if fault else ""))

        @rule(v=st.integers(0, 1), form=st.sampled_from(["lc", "bool", "int1"]), depth=st.integers(1, 4), raises=st.booleans(), twice=st.booleans())
        def reenter(self, v, form, depth, raises, twice):
            """ONE wrapper object returned by guarded(cond) is entered again while it is active (a guarded function that
            calls itself), and called a second time afterwards"""
            self.hist.append(["reenter", v, form, depth, raises, twice])
            before = self.triple()
            rt = self.rt
            machine = self
            vv = None if form == "int1" else v
            box = {}

            def fn(k):
                machine.check_inside([vv] * (depth - k + 1) if vv is not None else [])
                if k > 0:
                    out = box["w"](k - 1)
                    machine.check_inside([vv] * (depth - k + 1) if vv is not None else [])
                    return out
                if raises:
                    raise Sentinel()
                return rt.PrivVal(1)
            box["w"] = rt.guarded(self.mkcond(v, form))(fn)
            for _ in range(2 if twice else 1):
                try:
                    box["w"](depth)
                except Sentinel:
                    pass
                if any(a is not b for a, b in zip(before, self.triple())):
                    self.fail("guard state after a guarded function that re-enters its own wrapper (%d levels, %s) is not the state before it" % (
                        depth, "left by an exception" if raises else "returning"))

        @rule(c1=st.integers(0, 1), c2=st.integers(0, 1), b=st.integers(0, 1), kind=st.sampled_from(["while", "range"]))
        def break_inside_if(self, c1, c2, b, kind):
            """module-level block API on one context: a loop, an _if inside it, and _breakif inside the _if. The call is either
            refused (state unchanged) or the guard stays the conjunction of loop condition, if condition and not-broken"""
            self.hist.append(["break_inside_if", c1, c2, b, kind])
            before = self.triple()
            ns, rt, br = self.ns, self.rt, self.ns.br
            ctx = br.BranchingValues()
            ctx.x = rt.PrivVal(1)
            if kind == "while":
                br._while(ns.bo.PrivValBool(c1), ctx)
                loop = [c1]
            else:
                it = iter(br._range(rt.PrivVal(c1), max=1, ctx=ctx))
                next(it)
                loop = [c1]          # first iteration runs under (0 != stop)
            try:
                self.check_inside(loop)
                br._if(ns.bo.PrivValBool(c2), ctx)
                self.check_inside(loop + [c2])
                try:
                    br._breakif(ns.bo.PrivValBool(b), ctx)
                    refused = False
                except core.Violation:
                    raise
                except Exception:
                    refused = True
                self.check_inside(loop + [c2] + ([] if refused else [1 - b]))
                br._endif(ctx)
            finally:
                del ctx.stack[1:]
                if ctx.stack:
                    ctx.stack.pop().end()
            if any(a is not b_ for a, b_ in zip(before, self.triple())):
                self.fail("guard state after a loop containing an _if with a _breakif is not the state before it")

        @rule(c=st.integers(0, 1), kind=st.sampled_from(["pub0", "pub22", "max0", "stop0", "pub1"]))
        def short_loop_inside_if(self, c, kind):
            """a for loop that runs zero times (or once) inside an open _if on the same context: after _endfor the guard is the
            if's again, after _endif the state is the one before"""
            self.hist.append(["short_loop_inside_if", c, kind])
            before = self.triple()
            ns, rt, br = self.ns, self.rt, self.ns.br
            ctx = br.BranchingValues()
            ctx.x = rt.PrivVal(1)
            br._if(ns.bo.PrivValBool(c), ctx)
            try:
                self.check_inside([c])
                rng = {"pub0": lambda: br._range(0, ctx=ctx), "pub22": lambda: br._range(2, 2, ctx=ctx),
                       "max0": lambda: br._range(rt.PrivVal(0), max=0, ctx=ctx), "stop0": lambda: br._range(rt.PrivVal(0), max=2, ctx=ctx),
                       "pub1": lambda: br._range(1, ctx=ctx)}[kind]()
                for i in rng:
                    alive = {"max0": 0, "stop0": 0, "pub1": 1}.get(kind, 1)
                    self.check_inside([c] + ([alive] if kind != "pub1" else []))
                    ctx.x = ctx.x + 1
                br._endfor(ctx)
                self.check_inside([c])
                br._endif(ctx)
            finally:
                while ctx.stack:
                    try:
                        ctx.stack.pop().end()
                    except Exception:
                        pass
            if any(a is not b_ for a, b_ in zip(before, self.triple())):
                self.fail("guard state after an _if containing a short loop (%s) is not the state before it" % kind)

        @rule(v=st.integers(0, 1), form=st.sampled_from(["lc", "bool", "int1"]), n=st.integers(0, 3), first=st.integers(0, 2))
        def gen_start(self, v, form, n, first):
            """a generator function decorated with guarded(cond): the decorated call returns (the region has ended) as soon as
            the generator object exists; consuming it, now or in later steps, happens in whatever state is active then"""
            self.hist.append(["gen_start", v, form, n, first])
            rt = self.rt
            before = self.triple()

            def produce(k, scale=1):
                for i in range(k):
                    yield rt.PrivVal(i) * scale
                return k
            g = rt.guarded(self.mkcond(v, form))(produce)(n, scale=2)
            if any(a is not b for a, b in zip(before, self.triple())):
                self.fail("guard state after calling a guarded generator function is not the state before the call")
            self.gens.append(g)
            for _ in range(first):
                self.advance(g)

        def advance(self, g):
            before = self.triple()
            try:
                x = next(g)
                if x.value % 2:
                    self.fail("a guarded generator function did not receive its keyword argument")
            except StopIteration:
                if g in self.gens:
                    self.gens.remove(g)
            if any(a is not b for a, b in zip(before, self.triple())):
                self.fail("guard state after taking one item from a generator made by a guarded function is not the state before it")

        @precondition(lambda self: len(self.gens) > 0)
        @rule(k=st.integers(0, 5), lockstep=st.booleans())
        def gen_step(self, k, lockstep):
            self.hist.append(["gen_step", k, lockstep])
            if lockstep and len(self.gens) >= 2:
                a, b = self.gens[k % len(self.gens)], self.gens[(k + 1) % len(self.gens)]
                before = self.triple()
                for _ in zip(a, b):
                    pass
                for g in (a, b):
                    try:
                        next(g)
                    except StopIteration:
                        if g in self.gens:
                            self.gens.remove(g)
                if any(x is not y for x, y in zip(before, self.triple())):
                    self.fail("guard state after consuming two guarded generators in lockstep is not the state before it")
                return
            self.advance(self.gens[k % len(self.gens)])

        @rule(v=st.integers(0, 1), form=st.sampled_from(["lc", "bool", "int1"]), a=st.integers(-3, 3), extra=st.lists(st.integers(0, 3), max_size=2),
              kwname=st.sampled_from(["other", "cond", "fn", "args", "kwargs", "bak", "guard", "ret", "self", "cls", "f", "x_"]))
        def call_args(self, v, form, a, extra, kwname="other"):
            """the decorator hands positional, keyword and star arguments through - whatever the keywords are called (the names of
            its own parameters and locals included) - and returns the function's own result"""
            self.hist.append(["call_args", v, form, a, extra, kwname])
            before = self.triple()
            marker = object()

            def fn(x, *rest, key=None, **kw):
                return (x, rest, key, kw, marker)
            wrapped = self.rt.guarded(self.mkcond(v, form))(fn)
            inside = []
            got = wrapped(a, *extra, key="k", **{kwname: extra})
            if kwname == "cond":
                # a keyword called like the decorator's own parameter is an argument of fn, not a new condition for the region
                def fn2(x, cond=None):
                    inside.append(self.rt.guard)
                    return cond
                g_expected = self.rt.guarded(self.mkcond(v, form))
                r2 = g_expected(fn2)(a, cond=7)
                if r2 != 7:
                    self.fail("guarded(c)(fn)(x, cond=7): fn received cond=%r" % (r2,))
            if got != (a, tuple(extra), "k", {kwname: extra}, marker) or got[4] is not marker:
                self.fail("guarded(cond)(fn)(%r, *%r, key='k', %s=...) returned %r" % (a, extra, kwname, got[:4]))
            if any(x is not y for x, y in zip(before, self.triple())):
                self.fail("guard state after a guarded call with keyword arguments is not the state before it")

        @rule(c=st.integers(0, 1), kind=st.sampled_from(["if0", "whileFalse", "if-float", "if-none", "if2", "elif-not-callable"]), outer=st.sampled_from(["if", "while"]))
        def refused_block(self, c, kind, outer):
            """inside an open _if / _while block the program tries to open another block with a condition the library refuses
            (a public false / non-boolean / wrongly typed condition), catches the error and carries on: the refusal changes
            neither the guard state nor the block stack, and the enclosing block closes as if nothing had happened"""
            self.hist.append(["refused_block", c, kind, outer])
            rt, br, bo = self.rt, self.ns.br, self.ns.bo
            start = self.triple()
            bv = br.BranchingValues()
            bv.x = rt.PrivVal(1)
            (br._if if outer == "if" else br._while)(bo.PrivValBool(c), bv)
            before, depth = self.triple(), len(bv.stack)
            try:
                if kind == "if0":
                    br._if(0, bv)
                elif kind == "whileFalse":
                    br._while(False, bv)
                elif kind == "if-float":
                    br._if(2.5, bv)
                elif kind == "if-none":
                    br._if(None, bv)
                elif kind == "if2":
                    br._if(2, bv)
                else:
                    br._elif(bo.PrivValBool(1), bv) if outer == "if" else br._if("x", bv)
                refused = False
            except Exception:
                refused = True
            if refused:
                if any(a is not b for a, b in zip(before, self.triple())) or len(bv.stack) != depth:
                    now = len(bv.stack)
                    del bv.stack[:]
                    self.fail("a refused attempt to open a block (%s) inside an open %s block changed the guard state or left something on the block stack (%d -> %d entries)" % (
                        kind, outer, depth, now))
                bv.x = rt.PrivVal(5)
                (br._endif if outer == "if" else br._endwhile)(bv)
                if any(a is not b for a, b in zip(start, self.triple())) or len(bv.stack) != 0:
                    del bv.stack[:]
                    self.fail("after a refused inner block (%s) the enclosing %s block did not end: guard state or block stack differ from before it was opened" % (kind, outer))
                if bv.x.value != (5 if c else 1):
                    self.fail("after a refused inner block (%s) the enclosing %s block (condition %d) left x = %r, expected %d" % (kind, outer, c, bv.x.value, 5 if c else 1))
            else:
                # accepted after all (e.g. a public true condition): close what was opened, innermost first
                while len(bv.stack):
                    top = bv.stack[-1]
                    (br._endwhile if isinstance(top, br.WhileContext) else br._endif)(bv)
                if any(a is not b for a, b in zip(start, self.triple())):
                    self.fail("guard state after closing all blocks is not the state before they were opened")

        @precondition(lambda self: len(self.leaked) > 0)
        @rule()
        def collect_garbage(self):
            """block contexts abandoned with a block still open (an exception went through them) are finalised by the garbage
            collector at some arbitrary later moment - inside or outside other regions: that moment changes nothing"""
            self.hist.append(["collect_garbage", len(self.leaked)])
            import gc
            import sys
            before = self.triple()
            del self.leaked[:]
            hook = sys.unraisablehook
            sys.unraisablehook = lambda *a: None          # "unclosed branches left" from __del__ is the library's own warning
            try:
                gc.collect()
            finally:
                sys.unraisablehook = hook
            if any(a is not b for a, b in zip(before, self.triple())):
                self.fail("guard state changed when abandoned block contexts were garbage-collected")

        # -- invariant
        def check_inside(self, extra):
            rt = self.rt
            rec = self.ns.rec
            conds = self.active() + list(extra)
            g = rt.guard
            if not conds:
                if g is not None:
                    self.fail("guard is set although no secret condition is active")
                if rt.LinComb.ONE is not rt.LinComb.ONE_SAFE:
                    self.fail("LinComb.ONE is not the safe constant outside all regions")
            else:
                if g is None:
                    self.fail("guard is None inside %d active condition(s)" % len(conds))
                want = int(all(conds))
                if g.value != want:
                    self.fail("effective guard value is %r, conjunction of %r is %d" % (g.value, conds, want))
                if (r1cs.lc_value(g.lc.d, rec.vals, rec.P) - g.value) % rec.P:
                    self.fail("guard value %r differs from its wire expression" % g.value)
                if rt.LinComb.ONE is not g:
                    self.fail("LinComb.ONE is not the active guard inside a region")
            want_ign = self.base or (0 in conds)
            if bool(rt._ignore_errors) != want_ign:
                self.fail("error suppression is %r, expected %r (base %r, conditions %r)" % (rt._ignore_errors, want_ign, self.base, conds))
            k = rt.LinComb._ensurelc(7)
            want_k = 7 * (int(all(conds)) if conds else 1)
            if k.value != want_k or (r1cs.lc_value(k.lc.d, rec.vals, rec.P) - want_k) % rec.P:
                self.fail("the constant 7 means %r here, expected %d" % (k.value, want_k))

        @invariant()
        def state_ok(self):
            self.check_inside([])

        def teardown(self):
            if getattr(self, "_wctx", None) is not None:
                self._wctx.__exit__(None, None, None)
            for g in self.gens:
                g.close()
            for bv in self.leaked:
                del bv.stack[:]
            nt = self.exc_depth2 or self.false_under_true
            labels = ["steps:%d" % min(len(self.hist), 10)]
            if self.exc_depth2:
                labels.append("exception-at-depth>=2")
            if self.false_under_true:
                labels.append("false-under-true")
            if self.block_fault:
                labels.append("block-closing-statement-raised")
            for h in self.hist:
                labels.append("rule:" + h[0])
            stats.case({"history": self.hist} if nt else None, nt, set(labels))
    return GuardMachine


def shard(seed, n_examples, steps):
    stats = core.Stats()
    v = core.drive(make_machine(stats), seed, n_examples, stateful_steps=steps)
    if v is not None:
        stats.violations.append({"case": v.case, "msg": v.msg, "key": v.key})
    return stats


def deep_case(case):
    """N regions nested inside each other (conditions given as a bit pattern, forms cycling through secret integer,
    declared boolean and lazily evaluated branch), the invariant checked at every level on the way in, an optional
    exception raised at the innermost level, and the state compared with the one before. Returns message or None."""
    st_ = core.Stats()
    m = make_machine(st_)()
    rt, ns = m.rt, m.ns
    n, bits, raises = case["depth"], case["bits"], case["raises"]
    before = m.triple()
    forms = ["lc", "bool", "ite"]

    def level(k, conds):
        m.check_inside(conds)
        if k == n:
            if raises:
                raise Sentinel()
            return rt.PrivVal(1)
        v = bits[k % len(bits)]
        form = forms[k % 3]
        snap = m.triple()
        try:
            if form == "ite":
                ns.br.if_then_else(ns.bo.PrivValBool(v), lambda: level(k + 1, conds + [v]), rt.PrivVal(0))
            else:
                rt.guarded(m.mkcond(v, form))(lambda: level(k + 1, conds + [v]))()
        finally:
            if any(a is not b for a, b in zip(snap, m.triple())):
                m.fail("guard state after the region at nesting level %d of %d is not the state before it" % (k, n))
        m.check_inside(conds)
        return rt.PrivVal(1)
    try:
        try:
            level(0, [])
        except Sentinel:
            if not raises:
                raise
        if any(a is not b for a, b in zip(before, m.triple())):
            m.fail("guard state after %d nested regions is not the state before them" % n)
        m.check_inside([])
    except core.Violation as v:
        return v.msg
    return None


def deep_shard(cases):
    stats = core.Stats()
    for case in cases:
        msg = deep_case(case)
        stats.case(case, True, ("deep-nesting:%d" % case["depth"],), sample_cap=2)
        if msg:
            stats.violations.append({"case": case, "msg": msg, "key": "deep"})
            break
    return stats


def replay(case):
    """re-execute a recorded history without Hypothesis"""
    if case.get("part") == "deep":
        return deep_case(case)
    st_ = core.Stats()
    M = make_machine(st_)
    m = M()
    try:
        for h in case["history"]:
            if h[0] == "enter":
                m.enter(h[1], h[2])
            elif h[0] == "leave":
                m.leave()
            elif h[0] == "ignore":
                m.toggle_ignore(h[1])
            elif h[0] == "bad_enter":
                m.bad_enter(h[1])
            elif h[0] == "call_tree":
                m.call_tree(totuple(h[1]), h[2])
            elif h[0] == "block":
                m.block_walk(h[1], h[2], h[3], h[4] if len(h) > 4 else None)
            elif h[0] == "reenter":
                m.reenter(*h[1:])
            elif h[0] == "break_inside_if":
                m.break_inside_if(*h[1:])
            elif h[0] == "short_loop_inside_if":
                m.short_loop_inside_if(*h[1:])
            elif h[0] == "warnings_as_errors":
                m.warnings_policy(h[1])
            elif h[0] == "collect_garbage":
                m.collect_garbage()
            elif h[0] in ("gen_start", "gen_step", "call_args", "refused_block", "region_with_toggle"):
                getattr(m, h[0])(*h[1:])
            else:
                raise core.HarnessError("C08 replay: unknown step %r" % (h[0],))
            m.hist.pop()     # the rule appended it again
            m.hist.append(h)
            m.check_inside([])
    except core.Violation as v:
        return v.msg
    finally:
        m.teardown()
    return None


def totuple(x):
    if isinstance(x, list):
        if x and x[0] == "node":
            return ("node", x[1], x[2], [totuple(c) for c in x[3]], x[4])
        return tuple(totuple(c) for c in x)
    return x


def run(ctx):
    ctx.rule = RULE
    ctx.assumptions = ["model of the documented guard semantics (conjunction of conditions, suppression iff some condition is 0)"]
    if ctx.tier == "quick":
        jobs = [dict(seed=ctx.seed * 1000 + i, n_examples=150, steps=30) for i in range(16)]
    else:
        jobs = [dict(seed=ctx.seed * 1000 + 100 + i, n_examples=2000, steps=60) for i in range(16)]
    ctx.stats = core.run_shards("harness.checks.c08", "shard", jobs)
    # deterministic deep nestings (the machine stays shallow): depth x condition pattern x normal / exceptional exit
    deep = [{"part": "deep", "depth": n, "bits": bits, "raises": r}
            for n in ([1, 2, 3, 17, 64, 150] if ctx.tier == "quick" else [1, 2, 3, 5, 17, 33, 64, 100, 150, 200])
            for bits in ([1], [0], [1, 1, 1, 0], [0, 1], [1, 1, 1, 1, 1, 1, 1, 1, 1, 1, 1, 1, 1, 1, 1, 1, 0]) for r in (False, True)]
    ctx.stats.merge_json(core.run_shards("harness.checks.c08", "deep_shard", [dict(cases=deep[i::8]) for i in range(8)]).to_json())
