"""C06: the constraint system does not depend on the values processed."""
import copy
import itertools

from hypothesis import given, strategies as st

from harness import core, ir, r1cs, opgrid

RULE = ("(a) cell sweep: for every (operation x operand-type combination x plain-constant operands x guard shape) all "
        "runs over a pool of secret operand values - valid ones in normal mode, valid and invalid ones under "
        "ignore_errors, and both values of every enclosing guard - must produce one canonical trace (variable kinds in "
        "order, constraints with coefficients mod p, wire expressions of the results). (a') the same for reads and writes of an array at secret and constant indices, comparing also the wire "
        "expressions the array holds afterwards. (b) random programs: a generated "
        "program is re-run with the same inputs under ignore_errors and with re-drawn secret inputs (normal and "
        "ignore_errors); every completing run must have the canonical trace of the first. Non-trivial = the compared "
        "runs differ in a secret value that feeds a comparison, division, index, bit decomposition or guard and the "
        "trace has >= 1 constraint; distinct by digest of (program, input vectors).")
RULE += " Extensions (seeded rounds 10-15): lazily produced operands of the linalg helpers, values read back and fed to the next @snark call, three-argument pow, unpacking of raw wires, every operation (val() included) applied twice to the same objects."


OPS_C06 = [n for n in ir.OPS if n != "val"]
SENSITIVE = {"lt", "le", "gt", "ge", "eq", "ne", "truediv", "floordiv", "mod", "divmod", "aget", "aset", "to_bits",
             "to_bits_n", "check_zero", "check_nonzero", "check_positive", "abs", "rshift", "pow", "and", "or", "xor",
             "invert", "ite", "if_else", "assert_lt", "assert_le", "assert_gt", "assert_ge", "assert_range",
             "assert_positive", "assert_positive_n", "assert_nonzero", "pack_int", "lshift"}


def canon_of(m):
    rec = m.ns.rec
    res = []
    for i, x in enumerate(m.vals):
        for path, leaf in ir.secret_leaves(m.ns, x, "v%d" % i):
            res.append(leaf.lc.d)
    return r1cs.canonical(rec.snapshot(), res)


def describe_diff(c1, c2):
    if c1[0] != c2[0]:
        return "variable kinds differ: %d vs %d variables" % (len(c1[0]), len(c2[0]))
    if len(c1[1]) != len(c2[1]):
        return "number of constraints differs: %d vs %d" % (len(c1[1]), len(c2[1]))
    for i, (a, b) in enumerate(zip(c1[1], c2[1])):
        if a != b:
            return "constraint #%d differs: %r vs %r" % (i, a, b)
    for i, (a, b) in enumerate(zip(c1[2], c2[2])):
        if a != b:
            return "wire expression of result leaf #%d differs: %r vs %r" % (i, a, b)
    if len(c1[2]) != len(c2[2]):
        return "number of result leaves differs"
    return "traces differ"


def grid_shard(cells, b, p):
    stats = core.Stats()
    found = {}
    lim = 1 << b
    ipool = [-lim - 1, -1, 0, 1, 2, 3, lim - 1, lim]
    for name, ts in cells:
        op = ir.OPS[name]
        sec_pos = [i for i, t in enumerate(ts) if t in "IBF"]
        const_pos = [i for i, t in enumerate(ts) if t not in "IBF"]
        cpools = []
        for pos in const_pos:
            t = ts[pos]
            if pos in op.params:
                cpools.append([0, 1, b, b + 1])
            elif t == "b":
                cpools.append([False, True])
            elif t == "f":
                cpools.append([["f", 3, 2]])
            else:
                cpools.append([-1, 0, 1, 2, 3, lim])
        spools = [[0, 1] if ts[pos] == "B" else ipool for pos in sec_pos]
        for cvals in itertools.product(*cpools):
            for shape, modes in (("flat", ["normal", "ignore"]), ("g1", ["guard0", "guard1"]),
                                 ("g2", ["guard00", "guard01", "guard10", "guard11"]),
                                 # the operation a second time on the same objects (a value revealed or asserted twice, a
                                 # comparison repeated): whatever an object remembers about itself must not depend on its value
                                 ("twice", ["twice", "ignore+twice"])):
                ref_c = None
                ref_case = None
                for svals in itertools.product(*spools):
                    for mode in modes:
                        vals = [None] * len(ts)
                        for pos, v in zip(const_pos, cvals):
                            vals[pos] = v
                        for pos, v in zip(sec_pos, svals):
                            vals[pos] = v
                        args = [(t, "priv" if i % 2 == 0 else "pub", v) for i, (t, v) in enumerate(zip(ts, vals))]
                        prog = opgrid.single({"p": p, "b": b, "r": 2, "ignore": False}, name, args, mode.replace("twice", "normal"))
                        if shape == "twice":
                            prog["stmts"].append(copy.deepcopy(prog["stmts"][-1]))
                        m = ir.run_program(prog)
                        if m.raised is not None:
                            stats.case(None, False, ("run:raised",))
                            continue
                        c = canon_of(m)
                        nt = len(c[1]) > 0 and name in SENSITIVE
                        stats.case([name, ts, [str(v) for v in vals], mode], nt, ("op:" + name, "mode:" + mode), sample_cap=2)
                        if ref_c is None:
                            ref_c, ref_case = c, prog
                        elif c != ref_c:
                            key = "%s.%s.%s" % (name, ts, shape)
                            if key not in found:
                                found[key] = {"case": {"kind": "pair", "a": ref_case, "b": prog},
                                              "msg": "%s on %s: %s between\n  %r and\n  %r" % (
                                                  name, ts, describe_diff(ref_c, c), ref_case["stmts"], prog["stmts"]),
                                              "key": key}
    stats.violations = list(found.values())
    return stats


def array_grid_shard(b, p):
    """secret-index and constant-index reads and writes of a 3-element array (and a 2x2 array), under every guard shape:
    one canonical trace - including the wire expressions the array holds afterwards - whatever the secret values are"""
    stats = core.Stats()
    found = {}
    cfg = {"p": p, "b": b, "r": 2, "ignore": False}
    contents = [[5, 6, 7], [0, 0, 0], [7, 5, -1]]
    for opname, idx_secret, val_secret, cidx, cval in itertools.product(("aget", "aset"), (True, False), (True, False), (0, 2), (4, 0)):
        if opname == "aget" and (val_secret or cval):
            continue
        idxs = [0, 1, 2, -1, 3] if idx_secret else [cidx]
        vals = ([4, 0, 9] if val_secret else [cval]) if opname == "aset" else [None]
        for shape, modes in (("flat", ["normal", "ignore"]), ("g1", ["guard0", "guard1"]), ("g2", ["guard00", "guard01", "guard10", "guard11"])):
            ref_c = ref_case = None
            for cont, k, v, mode in itertools.product(contents, idxs, vals, modes):
                stmts = [["in", "priv", "I", x] for x in cont] + [["op", "array", [0, 1, 2]]]
                stmts.append(["in", "priv", "I", k] if idx_secret else ["const", k])
                refs = [3, 4]
                if opname == "aset":
                    stmts.append(["in", "pub", "I", v] if val_secret else ["const", v])
                    refs.append(5)
                c2 = dict(cfg)
                inner = [["op", opname, refs]]
                if mode == "ignore":
                    c2["ignore"] = True
                elif mode.startswith("guard"):
                    gs = []
                    for ch in mode[5:]:
                        stmts.append(["in", "priv", "B", int(ch)])
                        gs.append(len(stmts) - 1)
                    for g in reversed(gs):
                        inner = [["guard", "lc", g, inner]]
                prog = {"cfg": c2, "stmts": stmts + inner}
                m = ir.run_program(prog)
                if m.raised is not None:
                    stats.case(None, False, ("run:raised",))
                    continue
                c = canon_of(m)
                stats.case([opname, "secret-index" if idx_secret else "const-index", k, v, mode], len(c[1]) > 0 or mode != "normal",
                           ("op:" + opname, "mode:" + mode, "array-cell"), sample_cap=2)
                if ref_c is None:
                    ref_c, ref_case = c, prog
                elif c != ref_c:
                    key = "array.%s.%s.%s.%s" % (opname, "sidx" if idx_secret else "cidx", "sval" if val_secret else "cval", shape)
                    if key not in found:
                        found[key] = {"case": {"kind": "pair", "a": ref_case, "b": prog},
                                      "msg": "%s with a %s index: %s between\n  %r and\n  %r" % (
                                          opname, "secret" if idx_secret else "constant", describe_diff(ref_c, c), ref_case["stmts"], prog["stmts"]),
                                      "key": key}
    stats.violations = list(found.values())
    return stats


def redraw_inputs(draw, prog, ivals):
    """same program, secret input values re-drawn"""
    q = copy.deepcopy(prog)
    changed = []

    def walk(stmts):
        for s in stmts:
            if s[0] == "in":
                if s[2] == "B":
                    nv = draw(st.integers(0, 1))
                else:
                    nv = draw(st.one_of(st.just(s[3]), st.just(s[3] + 1), st.just(s[3] - 1), ivals))
                if nv != s[3]:
                    changed.append((s[2], s[3], nv))
                s[3] = nv
            elif s[0] == "guard":
                walk(s[3])
    walk(q["stmts"])
    return q, changed


def compare(base_prog, base_c, other_prog, what):
    m = ir.run_program(other_prog)
    if m.raised is not None:
        return False
    c = canon_of(m)
    if c != base_c:
        raise core.Violation({"kind": "pair", "a": base_prog, "b": other_prog},
                             "%s: %s" % (what, describe_diff(base_c, c)))
    return True


def shard(seed, n_examples):
    stats = core.Stats()

    @given(st.data())
    def test(data):
        draw = data.draw
        cfg = ir.gen_cfg(draw, st)
        n = draw(st.integers(1, 10))
        m, labels = ir.generate(draw, st, cfg, n, ops=OPS_C06)
        if m.raised is not None:
            # keep the completed prefix: drop the statement that raised
            stats.case(None, False, ("gen:raised",))
            return
        prog = m.program()
        base = canon_of(m)
        # determinism / same inputs under ignore_errors
        p_ign = copy.deepcopy(prog)
        p_ign["cfg"]["ignore"] = True
        compare(prog, base, p_ign, "same inputs, ignore_errors on vs off")
        ncmp = 0
        diff_sensitive = False
        for k in range(2):
            q, changed = redraw_inputs(draw, prog, ir.int_values(st, cfg["b"]))
            if not changed:
                continue
            if compare(prog, base, q, "different inputs, normal mode"):
                ncmp += 1
                labels.add("pair:valid/valid")
            q2 = copy.deepcopy(q)
            q2["cfg"]["ignore"] = True
            if compare(prog, base, q2, "different (possibly invalid) inputs under ignore_errors"):
                ncmp += 1
                labels.add("pair:valid/ignore")
            diff_sensitive = True
        used = {l[3:] for l in labels if l.startswith("op:")}
        nt = ncmp > 0 and len(base[1]) > 0 and diff_sensitive and bool((used & SENSITIVE) or any(l.startswith("guard:") for l in labels))
        stats.case(prog if nt else None, nt, labels | {"compared:%d" % ncmp})

    v = core.drive(test, seed, n_examples)
    if v is not None:
        stats.violations.append({"case": v.case, "msg": v.msg, "key": v.key})
    return stats


def replay(case):
    a = ir.run_program(case["a"])
    b = ir.run_program(case["b"])
    if a.raised is not None or b.raised is not None:
        return None
    ca, cb = canon_of(a), canon_of(b)
    if ca != cb:
        return describe_diff(ca, cb)
    return None


def run(ctx):
    ctx.rule = RULE
    ctx.assumptions = ["recorder backend; canonical form compares coefficients modulo the field prime",
                       "plain constants are part of the program, only PubVal/PrivVal inputs vary"]
    cells = []
    for name in OPS_C06 + ["val"]:          # (val() alone: its plain result is not fed to anything here)
        for ts in opgrid.type_combos(name):
            if any(t in "LA" for t in ts) or len(ts) > 3:
                continue
            if sum(1 for t in ts if t in "IBF") > 2 and name not in ("ite", "if_else"):
                continue
            cells.append((name, "".join(ts)))
    if ctx.tier == "quick":
        grids = [(3, "bn128")]
        shards = [dict(seed=ctx.seed * 1000 + i, n_examples=150) for i in range(16)]
    else:
        grids = [(2, 67), (3, "bn128"), (4, "bls12-381")]
        shards = [dict(seed=ctx.seed * 1000 + 100 + i, n_examples=3000) for i in range(16)]
    total = core.Stats()
    for b, p in grids:
        total.merge_json(core.run_shards("harness.checks.c06", "grid_shard",
                                         [dict(cells=cells[i::16], b=b, p=p) for i in range(16)]).to_json())
    total.merge_json(core.run_shards("harness.checks.c06", "array_grid_shard", [dict(b=b, p=p) for b, p in grids]).to_json())
    total.merge_json(core.run_shards("harness.checks.c06", "shard", shards).to_json())
    total.extra["cell_sweep"] = {"cells": len(cells), "grids": [list(g) for g in grids]}
    ctx.stats = total
