"""C10: snarkjs .r1cs / .wtns files encode exactly the traced circuit and a valid witness."""
import os
import shutil
import tempfile

from hypothesis import given, strategies as st

from harness import core, backends, ir, r1cs
from harness.decoders import iden3

RULE = ("(a) generated IR programs traced on the recorder, then their interface-level call sequence replayed on the real "
        "pysnark.snarkjsbackend; (b) directly generated backend-level traces: linear combinations with zero coefficients, "
        "empty combinations, repeated variables, scalars around and above p, witness values negative, >= p and wider than "
        "256 bits; then prove() in a scratch directory (in a third of the cases prove() is also called part-way through the trace: a "
        "history with two proving steps, each judged against the trace so far). Oracle: independent decoders of the iden3 formats accept both "
        "files (magic, version, section table, every declared size/count equal to the bytes consumed, no trailing bytes, "
        "every field element < p); header counts = 1 + #public + #private wires and #public; decoded witness = [1] + "
        "public values (creation order) + private values (creation order), congruent to the recorder's; decoded "
        "constraints equal the recorder's under that numbering (coefficient maps mod p, zero terms ignored); the decoded "
        "witness satisfies the decoded constraints whenever the recorder's witness satisfies the recorder's. Plus deterministic large traces (1 to 1025 [thorough: 10001] constraints, sizes around byte and power-of-two "
        "boundaries, late public values). Non-trivial "
        "= >= 1 public, >= 1 private, >= 1 constraint and a value outside [0,p); distinct by trace digest.")
RULE += " Extensions (seeded rounds 10-15): 12000 and 40001 constraints, a second prove() over same-shaped stale files, a failed prove() (output name taken by a directory) between two valid ones. Coefficient sweep: every coefficient k, -k, p-k, p+k for k = 1..10001 (thorough 70001) and around the powers of two and ten above, on a wire and on the constant."

P = backends.FIELDS["snarkjs"]


LIGHT_OPS = [n for n in ir.OPS if n not in ("poseidon", "poseidon1", "permute", "ggh")]


def lcmap(terms, p):
    m = {}
    for w, c in terms:
        m[w] = (m.get(w, 0) + c) % p
    return {w: c for w, c in m.items() if c}


def judge(trace, mod, tmp, split=None):
    """returns message or None. With `split`, prove() is also called after the first `split` calls of the
    trace (a history with two proving steps): both file pairs must describe the trace up to that point."""
    backends.reset_state("snarkjs", mod)
    if split:
        vars_ = backends.apply_trace(trace[:split], mod)
        msg = check_files(trace[:split], mod, tmp)
        if msg:
            return "after the first prove() (of two): " + msg
        if split % 2:
            backends.failed_prove(mod, tmp, ("witness.wtns", "circuit.r1cs"))      # ... and a third one in between that fails and is caught
        backends.apply_trace(trace[split:], mod, vars_)
        if len(trace) % 2:
            backends.failed_prove(mod, tmp, ("circuit.r1cs", "witness.wtns"))
        msg = check_files(trace, mod, tmp)
        return ("after the second prove(): " + msg) if msg else None
    backends.apply_trace(trace, mod)
    return check_files(trace, mod, tmp)


def check_files(trace, mod, tmp):
    ref = backends.reference(trace, P)
    msg = backends.prove_over_stale(mod, tmp, ("witness.wtns", "circuit.r1cs"))
    if msg:
        return msg
    try:
        w = iden3.read_wtns(open(os.path.join(tmp, "witness.wtns"), "rb").read())
        c = iden3.read_r1cs(open(os.path.join(tmp, "circuit.r1cs"), "rb").read())
    except iden3.FormatError as e:
        return "malformed file: %s" % e
    num, pubs, privs = backends.file_numbering(ref["kinds"])
    nw = len(ref["vals"])
    if w["prime"] != P or c["prime"] != P:
        return "prime in the file headers is not the backend's field prime"
    if c["nwires"] != nw or len(w["values"]) != nw:
        return "file declares %d wires / %d witness values, the trace has %d" % (c["nwires"], len(w["values"]), nw)
    if c["npubout"] + c["npubin"] != len(pubs):
        return "header declares %d outputs + %d public inputs, the trace has %d public values" % (c["npubout"], c["npubin"], len(pubs))
    want = [None] * nw
    for k, i in num.items():
        want[i] = ref["vals"][k] % P
    if w["values"] != want:
        bad = [i for i in range(nw) if w["values"][i] != want[i]][0]
        return "witness value of wire %d is %d in the file, %d (mod p) in the trace" % (bad, w["values"][bad], want[bad])
    if len(c["constraints"]) != len(ref["cons"]):
        return "file has %d constraints, the trace %d" % (len(c["constraints"]), len(ref["cons"]))
    for i, (fc, rc) in enumerate(zip(c["constraints"], ref["cons"])):
        for side, (ft, rd) in enumerate(zip(fc, rc)):
            got = lcmap(ft, P)
            exp = {}
            for v, coef in rd.items():
                exp[num[v]] = (exp.get(num[v], 0) + coef) % P
            exp = {k: v for k, v in exp.items() if v}
            if got != exp:
                return "constraint %d, combination %s: file decodes to %r, trace has %r" % (i, "ABC"[side], got, exp)
    # decoded witness against decoded constraints
    ref_ok = not r1cs.evaluate(ref)
    for i, fc in enumerate(c["constraints"]):
        a, b, cc = [sum(coef * w["values"][wi] for wi, coef in t) % P for t in fc]
        if ((a * b - cc) % P == 0) != (not r1cs.evaluate([ref["cons"][i]], ref["vals"], P)):
            return "decoded constraint %d is %s by the decoded witness, the traced one is not" % (i, "satisfied" if (a * b - cc) % P == 0 else "violated")
    return None


class Env:
    def __init__(self):
        self.tmp = tempfile.mkdtemp(prefix="verif-c10-")
        self.old = os.getcwd()
        os.chdir(self.tmp)
        self.mod = backends.load("snarkjs")
        import sys
        self.devnull = open(os.devnull, "w")

    def close(self):
        os.chdir(self.old)
        shutil.rmtree(self.tmp, ignore_errors=True)


def quiet(fn, *a):
    import contextlib, io
    with contextlib.redirect_stderr(io.StringIO()), contextlib.redirect_stdout(io.StringIO()):
        return fn(*a)


def nontrivial(trace):
    kinds = [c[0] for c in trace]
    return "pub" in kinds and "priv" in kinds and "con" in kinds and any(c[0] != "con" and not 0 <= c[1] < P for c in trace)


def shard(seed, n_examples, programs):
    stats = core.Stats()
    e = Env()
    try:
        @given(st.data())
        def test(data):
            draw = data.draw
            if programs:
                cfg = ir.gen_cfg(draw, st, small_ok=False)
                cfg["p"] = "bn128"
                cfg["b"] = min(cfg["b"], 32)     # file encoding is judged here: hash gadgets and 64-bit comparisons only add bulk
                m, labels = ir.generate(draw, st, cfg, draw(st.integers(1, 8)), ops=LIGHT_OPS)
                trace = backends.trace_from_recorder(m.ns.rec.snapshot())
                lab = ("source:program",)
            else:
                trace = draw(backends.trace_strategy(st, P))
                lab = ("source:direct",)
            split = draw(st.integers(1, len(trace))) if len(trace) > 1 and draw(st.integers(0, 2)) == 0 else None
            msg = quiet(judge, trace, e.mod, e.tmp, split)
            nt = nontrivial(trace)
            stats.case(trace if nt else None, nt, lab + (("two-proves",) if split else ()))
            if msg:
                raise core.Violation({"trace": trace, "split": split}, msg, "file")
        v = core.drive(test, seed, n_examples)
        if v is not None:
            stats.violations.append({"case": v.case, "msg": v.msg, "key": v.key})
    finally:
        e.close()
    return stats


def large_shard(sizes):
    stats = core.Stats()
    e = Env()
    try:
        for n in sizes:
            trace = backends.sized_trace(n, P)
            case = {"large": n}
            msg = quiet(judge, trace, e.mod, e.tmp, None)
            stats.case(case, True, ("large-trace",), sample_cap=2)
            if msg:
                stats.violations.append({"case": case, "msg": "trace %s: %s" % ("with %d constraints" % n if isinstance(n, int) else "with %s public values" % n[3:] if n.startswith("pub") else "sweeping coefficients (%s)" % n, msg), "key": "large"})
    finally:
        e.close()
    return stats


def replay(case):
    if "large" in case:
        e = Env()
        try:
            return quiet(judge, backends.sized_trace(case["large"], P), e.mod, e.tmp, None)
        finally:
            e.close()
    e = Env()
    try:
        return quiet(judge, case["trace"], e.mod, e.tmp, case.get("split"))
    finally:
        e.close()


def run(ctx):
    ctx.rule = RULE
    ctx.assumptions = ["iden3 .r1cs v1 / .wtns v2 layout as implemented in harness/decoders/iden3.py (snarkjs itself is not available offline)",
                       "nLabels and the wire-to-label map contents are not judged", "recorder as reference trace"]
    n = 150 if ctx.tier == "quick" else 3000
    jobs = [dict(seed=ctx.seed * 1000 + i, n_examples=n, programs=(i % 2 == 0)) for i in range(16)]
    ctx.stats = core.run_shards("harness.checks.c10", "shard", jobs)
    # (12000 / 40001 constraints: constraint sections of 1.5 to 6 MB, beyond any buffer or chunk size of a writer)
    sizes = [1, 85, 255, 256, 257, 1000, 1001, 1025, 12000, 40001, "pub255", "pub256", "pub257", "pub1000", "pub65535", "pub65537", "coef10001"] if ctx.tier == "quick" else [1, 85, 255, 256, 257, 999, 1000, 1001, 1024, 1025, 2047, 2501, 4097, 10001, 12000, 32769, 40001, "pub255", "pub256", "pub257", "pub1000", "pub65535", "pub65537", "coef70001"]
    ctx.stats.merge_json(core.run_shards("harness.checks.c10", "large_shard", [dict(sizes=sizes[i::8]) for i in range(8)]).to_json())
    # the same encoder in an interpreter started with -O (assert statements stripped)
    ctx.stats.merge_json(core.run_shards_optimised("harness.checks.c10", "large_shard", [dict(sizes=[1, 85])]).to_json())
    ctx.stats.merge_json(core.run_shards_optimised("harness.checks.c10", "shard", [dict(seed=ctx.seed * 1000 + 77, n_examples=40, programs=False)]).to_json())
