"""Independent readers of the iden3 binary formats written for snarkjs (.r1cs v1, .wtns v2),
written from the format descriptions; shares no code with /repo."""
import struct


class FormatError(Exception):
    pass


class _R:
    def __init__(self, data, what):
        self.d, self.pos, self.what = data, 0, what

    def take(self, n):
        if self.pos + n > len(self.d):
            raise FormatError("%s: truncated (need %d bytes at offset %d, file has %d)" % (self.what, n, self.pos, len(self.d)))
        b = self.d[self.pos:self.pos + n]
        self.pos += n
        return b

    def u32(self):
        return struct.unpack("<I", self.take(4))[0]

    def u64(self):
        return struct.unpack("<Q", self.take(8))[0]

    def le(self, n):
        return int.from_bytes(self.take(n), "little")


def _sections(r, magic, version, nsections=None):
    if r.take(4) != magic:
        raise FormatError("%s: bad magic" % r.what)
    v = r.u32()
    if v != version:
        raise FormatError("%s: version %d, expected %d" % (r.what, v, version))
    n = r.u32()
    secs = {}
    order = []
    for _ in range(n):
        t = r.u32()
        size = r.u64()
        if t in secs:
            raise FormatError("%s: duplicate section %d" % (r.what, t))
        secs[t] = (r.pos, size)
        order.append(t)
        r.take(size)
    if r.pos != len(r.d):
        raise FormatError("%s: %d trailing bytes after the last declared section" % (r.what, len(r.d) - r.pos))
    return secs, order


def read_r1cs(data):
    r = _R(data, "circuit.r1cs")
    secs, order = _sections(r, b"r1cs", 1)
    for t in (1, 2, 3):
        if t not in secs:
            raise FormatError("circuit.r1cs: section %d missing" % t)
    pos, size = secs[1]
    h = _R(data[pos:pos + size], "r1cs header")
    fs = h.u32()
    if fs % 8 or fs == 0:
        raise FormatError("r1cs header: field size %d is not a positive multiple of 8" % fs)
    prime = h.le(fs)
    nwires, npubout, npubin, nprvin = h.u32(), h.u32(), h.u32(), h.u32()
    nlabels = h.u64()
    ncons = h.u32()
    if h.pos != size:
        raise FormatError("r1cs header: declared size %d, content is %d bytes" % (size, h.pos))
    if npubout + npubin + nprvin > nwires - 1:
        raise FormatError("r1cs header: %d outputs + %d public + %d private inputs exceed %d wires" % (npubout, npubin, nprvin, nwires))
    pos, size = secs[2]
    c = _R(data[pos:pos + size], "r1cs constraints")
    cons = []
    for i in range(ncons):
        lcs = []
        for k in range(3):
            n = c.u32()
            terms = []
            for _ in range(n):
                w = c.u32()
                coef = c.le(fs)
                if w >= nwires:
                    raise FormatError("constraint %d: wire %d out of range (nWires=%d)" % (i, w, nwires))
                if coef >= prime:
                    raise FormatError("constraint %d: coefficient not canonical (>= prime)" % i)
                terms.append((w, coef))
            lcs.append(terms)
        cons.append(tuple(lcs))
    if c.pos != size:
        raise FormatError("r1cs constraints: declared section size %d but %d constraints occupy %d bytes" % (size, ncons, c.pos))
    pos, size = secs[3]
    if size != 8 * nwires:
        raise FormatError("r1cs wire map: declared size %d, expected 8*nWires=%d" % (size, 8 * nwires))
    return {"field_size": fs, "prime": prime, "nwires": nwires, "npubout": npubout, "npubin": npubin,
            "nprvin": nprvin, "nlabels": nlabels, "constraints": cons, "section_order": order}


def read_wtns(data):
    r = _R(data, "witness.wtns")
    secs, order = _sections(r, b"wtns", 2)
    if sorted(secs) != [1, 2]:
        raise FormatError("witness.wtns: sections %r, expected [1, 2]" % sorted(secs))
    pos, size = secs[1]
    h = _R(data[pos:pos + size], "wtns header")
    n8 = h.u32()
    if n8 % 8 or n8 == 0:
        raise FormatError("wtns header: field size %d" % n8)
    prime = h.le(n8)
    n = h.u32()
    if h.pos != size:
        raise FormatError("wtns header: declared size %d, content is %d bytes" % (size, h.pos))
    pos, size = secs[2]
    if size != n8 * n:
        raise FormatError("wtns values: declared size %d, expected %d*%d" % (size, n8, n))
    v = _R(data[pos:pos + size], "wtns values")
    vals = []
    for i in range(n):
        x = v.le(n8)
        if x >= prime:
            raise FormatError("witness value #%d is not a canonical field element (>= prime)" % i)
        vals.append(x)
    return {"field_size": n8, "prime": prime, "values": vals}
