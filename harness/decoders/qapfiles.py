"""Independent parser/evaluator for the files the qaptools backend writes: equation grammar
(`<lc> * <lc> = <lc> [.]`, `* = <lc>` meaning 0 = lc), directives ([function] [ioblock] [external] [glue]),
wire and I/O value files, schedule and per-function equation files. Shares no code with /repo."""


class FormatError(Exception):
    pass


def parse_values(text):
    vals = {}
    for ln in text.splitlines():
        ln = ln.strip()
        if not ln or ln.startswith("#"):
            continue
        if ":" not in ln:
            raise FormatError("value line without ':': %r" % ln)
        nm, v = ln.split(":", 1)
        nm = nm.strip()
        if nm in vals:
            raise FormatError("wire %s assigned twice" % nm)
        try:
            vals[nm] = int(v.strip())
        except ValueError:
            raise FormatError("non-integer value in %r" % ln)
    return vals


def parse_lc(tokens):
    if len(tokens) % 2:
        raise FormatError("linear combination with an odd number of tokens: %r" % (tokens,))
    out = []
    for i in range(0, len(tokens), 2):
        try:
            c = int(tokens[i])
        except ValueError:
            raise FormatError("coefficient %r is not an integer" % tokens[i])
        out.append((c, tokens[i + 1]))
    return out


def parse_line(ln):
    """('function', fname, call) | ('ioblock', ctx, bn, [wires]) | ('external', ...) | ('glue', c1, b1, c2, b2)
    | ('eq', A, B, C, dotted) with A/B/C lists of (coeff, name); `* = lc` gives A = B = []"""
    toks = ln.split()
    if not toks:
        return None
    if toks[0].startswith("["):
        d = toks[0]
        if d == "[function]":
            return ("function", toks[1], toks[2])
        if d == "[ioblock]":
            return ("ioblock", toks[1], toks[2], toks[3:])
        if d == "[external]":
            return ("external",) + tuple(toks[1:])
        if d == "[glue]":
            if len(toks) != 5:
                raise FormatError("bad glue line %r" % ln)
            return ("glue", toks[1], toks[2], toks[3], toks[4])
        raise FormatError("unknown directive %r" % d)
    dotted = toks[-1] == "."
    if dotted:
        toks = toks[:-1]
    if "*" not in toks or "=" not in toks:
        raise FormatError("equation without '*' / '=': %r" % ln)
    i, j = toks.index("*"), toks.index("=")
    if j < i:
        raise FormatError("'=' before '*' in %r" % ln)
    return ("eq", parse_lc(toks[:i]), parse_lc(toks[i + 1:j]), parse_lc(toks[j + 1:]), dotted)


def parse_eqs(text):
    out = []
    for ln in text.splitlines():
        ln = ln.strip()
        if not ln or ln.startswith("#"):
            continue
        out.append(parse_line(ln))
    return out


def lc_value(lc, vals, p):
    tot = 0
    for c, nm in lc:
        if nm.endswith("/one") or nm == "one":
            tot += c
        else:
            if nm not in vals:
                raise FormatError("wire %s used in an equation has no value" % nm)
            tot += c * vals[nm]
    return tot % p


def eq_holds(eq, vals, p):
    _, a, b, c, dotted = eq
    return (lc_value(a, vals, p) * lc_value(b, vals, p) - lc_value(c, vals, p)) % p == 0


def context_of(eq):
    ctxs = set()
    for lc in eq[1:4]:
        for c, nm in lc:
            if "/" in nm:
                ctxs.add(nm.split("/", 1)[0])
    return ctxs


def strip_ctx(lc):
    return [(c, nm.split("/", 1)[1] if "/" in nm else nm) for c, nm in lc]


def canon_eq(a, b, c, p):
    """context-free canonical form: per side a sorted tuple of (local wire name, coeff mod p), zero terms dropped"""
    def side(lc):
        m = {}
        for k, nm in strip_ctx(lc):
            m[nm] = (m.get(nm, 0) + k) % p
        return tuple(sorted((nm, k) for nm, k in m.items() if k))
    return (side(a), side(b), side(c))
