"""Independent reader of zkinterface files: FlatBuffers wire format (size-prefixed messages, tables with
vtables, unions, vectors) following pysnark/zkinterface/zkinterface.fbs. Written from the format rules;
shares no code with /repo or with the flatbuffers stand-in."""
import struct


class FormatError(Exception):
    pass


class Buf:
    def __init__(self, b):
        self.b = b

    def _chk(self, pos, n):
        if pos < 0 or pos + n > len(self.b):
            raise FormatError("read of %d bytes at %d outside message of %d bytes" % (n, pos, len(self.b)))

    def u8(self, p):
        self._chk(p, 1); return self.b[p]

    def u16(self, p):
        self._chk(p, 2); return struct.unpack_from("<H", self.b, p)[0]

    def u32(self, p):
        self._chk(p, 4); return struct.unpack_from("<I", self.b, p)[0]

    def i32(self, p):
        self._chk(p, 4); return struct.unpack_from("<i", self.b, p)[0]

    def u64(self, p):
        self._chk(p, 8); return struct.unpack_from("<Q", self.b, p)[0]

    def table(self, pos):
        return Table(self, pos)

    def indirect(self, p):
        return p + self.u32(p)


class Table:
    def __init__(self, buf, pos):
        self.buf, self.pos = buf, pos
        self.vt = pos - buf.i32(pos)
        self.vtsize = buf.u16(self.vt)
        self.objsize = buf.u16(self.vt + 2)
        if self.vtsize < 4 or self.vtsize % 2:
            raise FormatError("bad vtable size %d" % self.vtsize)

    def field(self, i):
        """absolute position of field i or None"""
        off = 4 + 2 * i
        if off >= self.vtsize:
            return None
        o = self.buf.u16(self.vt + off)
        if o == 0:
            return None
        if o >= max(self.objsize, 4) and self.objsize:
            raise FormatError("field offset %d outside object of size %d" % (o, self.objsize))
        return self.pos + o

    def scalar(self, i, kind, default=0):
        p = self.field(i)
        if p is None:
            return default
        return getattr(self.buf, kind)(p)

    def subtable(self, i):
        p = self.field(i)
        if p is None:
            return None
        return self.buf.table(self.buf.indirect(p))

    def vector(self, i):
        """(start of elements, length) or None"""
        p = self.field(i)
        if p is None:
            return None
        v = self.buf.indirect(p)
        n = self.buf.u32(v)
        return v + 4, n


def split_messages(data):
    msgs = []
    pos = 0
    while pos < len(data):
        if pos + 4 > len(data):
            raise FormatError("truncated size prefix at %d" % pos)
        size = struct.unpack_from("<I", data, pos)[0]
        if size < 8 or pos + 4 + size > len(data):
            raise FormatError("message at %d declares %d bytes, file has %d left" % (pos, size, len(data) - pos - 4))
        msgs.append(data[pos + 4:pos + 4 + size])
        pos += 4 + size
    return msgs


def _variables(t):
    if t is None:
        return None
    buf = t.buf
    ids = []
    v = t.vector(0)
    if v is not None:
        start, n = v
        ids = [buf.u64(start + 8 * k) for k in range(n)]
    vals = b""
    v = t.vector(1)
    if v is not None:
        start, n = v
        buf._chk(start, n)
        vals = bytes(buf.b[start:start + n])
    return {"ids": ids, "values": vals}


MESSAGE_TYPES = {1: "CircuitHeader", 2: "ConstraintSystem", 3: "Witness", 4: "Command"}


def decode_message(payload):
    buf = Buf(payload)
    root = buf.table(buf.indirect(0))
    mtype = root.scalar(0, "u8")
    if mtype not in MESSAGE_TYPES:
        raise FormatError("unknown message type %d" % mtype)
    body = root.subtable(1)
    if body is None:
        raise FormatError("Root.message missing")
    kind = MESSAGE_TYPES[mtype]
    if kind == "CircuitHeader":
        fm = body.vector(2)
        fmax = b""
        if fm is not None:
            buf._chk(fm[0], fm[1])
            fmax = bytes(buf.b[fm[0]:fm[0] + fm[1]])
        return kind, {"instance_variables": _variables(body.subtable(0)),
                      "free_variable_id": body.scalar(1, "u64"), "field_maximum": fmax}
    if kind == "Witness":
        return kind, {"assigned_variables": _variables(body.subtable(0))}
    if kind == "ConstraintSystem":
        cons = []
        v = body.vector(0)
        if v is not None:
            start, n = v
            for k in range(n):
                ct = buf.table(buf.indirect(start + 4 * k))
                cons.append(tuple(_variables(ct.subtable(j)) for j in range(3)))
        return kind, {"constraints": cons}
    return kind, {}


def read_file(data):
    return [decode_message(m) for m in split_messages(data)]


def split_values(vals_bytes, n):
    """element size and little-endian integers of a Variables.values array holding n elements"""
    if n == 0:
        if vals_bytes:
            raise FormatError("values present for zero variables")
        return 0, []
    if len(vals_bytes) % n:
        raise FormatError("values array of %d bytes is not a multiple of %d variables" % (len(vals_bytes), n))
    w = len(vals_bytes) // n
    return w, [int.from_bytes(vals_bytes[k * w:(k + 1) * w], "little") for k in range(n)]
