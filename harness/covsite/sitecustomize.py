"""Line-coverage tap for the library under test (diagnostic only: tells which lines of pysnark no check executes).
Active only when VERIF_COVER_DIR is set; harness/covsite is then put on PYTHONPATH so that child interpreters load it too.
Uses sys.monitoring (Python 3.12): each (file, line) is reported once and then disabled, so the cost is negligible."""
import atexit
import json
import os
import sys

_DIR = os.environ.get("VERIF_COVER_DIR")
_ROOT = os.path.realpath(os.environ.get("VERIF_REPO") or "/repo")
_seen = set()
_n = [0]


def dump():
    if not _DIR or not _seen:
        return
    _n[0] += 1
    try:
        with open(os.path.join(_DIR, "%d-%d.json" % (os.getpid(), _n[0])), "w") as f:
            json.dump(sorted(_seen), f)
    except OSError:
        pass


def start():
    if not _DIR or not hasattr(sys, "monitoring"):
        return
    mon = sys.monitoring
    tid = mon.COVERAGE_ID
    try:
        mon.use_tool_id(tid, "verif-cover")
    except ValueError:
        return
    prefix = os.path.join(_ROOT, "pysnark") + os.sep

    def on_line(code, line):
        fn = code.co_filename
        if fn.startswith(prefix) or os.path.realpath(fn).startswith(prefix):
            _seen.add((fn[len(_ROOT) + 1:] if fn.startswith(_ROOT) else fn, line))
        return mon.DISABLE

    mon.register_callback(tid, mon.events.LINE, on_line)
    mon.set_events(tid, mon.events.LINE)
    atexit.register(dump)


start()
