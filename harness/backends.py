"""Driving the real proof-producing backend modules directly at the eight-function interface,
next to the recorder, with generated backend-level traces."""
import copy
import importlib
import os
import sys

from harness import core, recorder

SHIMS = os.path.join(os.path.dirname(os.path.abspath(__file__)), "shims")
REPO = os.environ.get("VERIF_REPO", "/repo")

FIELDS = {
    "snarkjs": recorder.BN128,
    "zkinterface": recorder.BN128,
    "zkifbellman": recorder.BLS12_381,
    "zkifbulletproofs": recorder.CURVE25519,
    "qaptools": recorder.BN128,
}
MODULES = {
    "snarkjs": "pysnark.snarkjsbackend",
    "zkinterface": "pysnark.zkinterface.backend",
    "zkifbellman": "pysnark.zkinterface.backendbellman",
    "zkifbulletproofs": "pysnark.zkinterface.backendbulletproofs",
    "qaptools": "pysnark.qaptools.backend",
}


def curve_order(name):
    """scalar-field order recomputed from the curve definition"""
    if name in ("snarkjs", "zkinterface", "qaptools", "libsnark", "libsnarkgg"):
        u = 4965661367192848881                      # BN254 / alt_bn128
        return 36 * u ** 4 + 36 * u ** 3 + 18 * u ** 2 + 6 * u + 1
    if name == "zkifbellman":
        u = -0xd201000000010000                      # BLS12-381
        return u ** 4 - u ** 2 + 1
    if name == "zkifbulletproofs":
        return 2 ** 252 + 27742317777372353535851937790883648493   # Curve25519 / Ristretto group order
    raise KeyError(name)


def miller_rabin(n):
    """deterministic for n < 3.3e24 with these bases, strong probable-prime test beyond (bases fixed)"""
    if n < 2:
        return False
    small = [2, 3, 5, 7, 11, 13, 17, 19, 23, 29, 31, 37, 41, 43, 47, 53, 59, 61, 67, 71]
    for q in small:
        if n % q == 0:
            return n == q
    d, s = n - 1, 0
    while d % 2 == 0:
        d //= 2
        s += 1
    for a in small:
        x = pow(a, d, n)
        if x in (1, n - 1):
            continue
        for _ in range(s - 1):
            x = x * x % n
            if x == n - 1:
                break
        else:
            return False
    return True


def load(name):
    """import the real backend module from /repo (with the stand-ins it needs on the path)"""
    from harness import env
    env.bind()      # bind pysnark.runtime to the recorder first: a real backend module in sys.modules would win stage 1
    if REPO not in sys.path:
        sys.path.insert(0, REPO)
    if name.startswith("zk"):
        fb = os.path.join(SHIMS, "fb")
        if fb not in sys.path:
            sys.path.append(fb)      # after /repo and site-packages: a real flatbuffers wins if present
    if name == "qaptools":
        os.environ.setdefault("QAPTOOLS_BIN", os.path.join(SHIMS, "qapbin"))
    mod = importlib.import_module(MODULES[name])
    if not os.path.realpath(mod.__file__).startswith(os.path.realpath(REPO) + os.sep):
        raise core.HarnessError("%s imported from %s, not from %s" % (MODULES[name], mod.__file__, REPO))
    return mod


def state_module(name, mod):
    """module that holds pubvals/privvals/constraints (the base module for the derived zkinterface ones)"""
    if name in ("zkifbellman", "zkifbulletproofs"):
        return sys.modules["pysnark.zkinterface.backend"]
    return mod


def reset_state(name, mod):
    sm = state_module(name, mod)
    del sm.privvals[:]
    del sm.pubvals[:]
    del sm.constraints[:]


# ---------------------------------------------------------------------------
# backend-level traces: JSON lists of calls
#   ["priv", val] ["pub", val] ["con", A, B, C]     A,B,C expression trees:
#   ["var", k] (k-th created variable, 0-based) | ["one"] | ["zero"] | ["add", t, t] | ["sub", t, t] | ["neg", t] | ["mul", t, k]

def build(tree, mod, vars_):
    t = tree[0]
    if t == "var":
        return vars_[tree[1]]
    if t == "one":
        return mod.one()
    if t == "zero":
        return mod.zero()
    if t == "add":
        return build(tree[1], mod, vars_) + build(tree[2], mod, vars_)
    if t == "sub":
        return build(tree[1], mod, vars_) - build(tree[2], mod, vars_)
    if t == "neg":
        return -build(tree[1], mod, vars_)
    if t == "mul":
        return build(tree[1], mod, vars_) * tree[2]
    raise core.HarnessError("bad tree %r" % (tree,))


def apply_trace(trace, mod, vars_=None):
    vars_ = [] if vars_ is None else vars_
    for call in trace:
        if call[0] == "priv":
            vars_.append(mod.privval(call[1]))
        elif call[0] == "pub":
            vars_.append(mod.pubval(call[1]))
        else:
            mod.add_constraint(*[build(t, mod, vars_) for t in call[1:]])
    return vars_


def eval_tree(tree, vals, p):
    t = tree[0]
    if t == "var":
        return vals[tree[1]] % p
    if t == "one":
        return 1
    if t == "zero":
        return 0
    if t == "add":
        return (eval_tree(tree[1], vals, p) + eval_tree(tree[2], vals, p)) % p
    if t == "sub":
        return (eval_tree(tree[1], vals, p) - eval_tree(tree[2], vals, p)) % p
    if t == "neg":
        return -eval_tree(tree[1], vals, p) % p
    if t == "mul":
        return eval_tree(tree[1], vals, p) * tree[2] % p
    raise core.HarnessError("bad tree")


def trace_from_recorder(snap):
    """backend-level trace reproducing a recorder snapshot (variables in creation order, each linear
    combination as the sum of var*coeff terms in the recorded order, zero coefficients kept)"""
    out = []
    for k in range(1, len(snap["vals"])):
        out.append([snap["kinds"][k], snap["vals"][k]])

    def lc(d):
        t = None
        for v, c in d.items():
            term = ["mul", ["one"] if v == 0 else ["var", v - 1], c]
            t = term if t is None else ["add", t, term]
        return t if t is not None else ["zero"]
    for a, b, c in snap["cons"]:
        out.append(["con", lc(a), lc(b), lc(c)])
    return out


def reference(trace, p):
    """run the trace on the recorder: (kinds, values, constraints as dicts over recorder vars)"""
    recorder.reset(p)
    apply_trace(trace, recorder)
    return recorder.snapshot()


def file_numbering(kinds):
    """recorder var index -> file wire index under: one, publics in creation order, privates in creation order"""
    pubs = [k for k in range(1, len(kinds)) if kinds[k] == "pub"]
    privs = [k for k in range(1, len(kinds)) if kinds[k] == "priv"]
    m = {0: 0}
    for i, k in enumerate(pubs):
        m[k] = 1 + i
    for i, k in enumerate(privs):
        m[k] = 1 + len(pubs) + i
    return m, pubs, privs


def large_trace(n, p, npub=3):
    """deterministic trace with n constraints (sizes around byte / chunk boundaries matter for encoders):
    x_k * x_{k-1} = y_k with a late public value and a few adversarial coefficients"""
    tr = [["pub", 5], ["priv", 3], ["priv", -4]]
    nv = 3
    for k in range(n):
        tr.append(["priv", (k * 7 + 1) % 1000])
        nv += 1
        a = ["add", ["var", nv - 1], ["mul", ["one"], k % 5]]
        bb = ["sub", ["var", nv - 2], ["mul", ["var", nv - 3], (p - 1) if k % 3 == 0 else 2]]
        c = ["mul", ["var", (k * 13) % nv], -(k + 1)]
        tr.append(["con", a, bb, c])
        if k in (n // 2, n - 2) and npub:
            tr.append(["pub", k])
            nv += 1
            npub -= 1
    return tr


def sweep_scalars(n):
    """1..n, the neighbours of the powers of two and ten above n, and magnitudes of EVERY bit length up to 300 at nine positions
    within the length (2^(m-1) * (1 + j/8), and the all-ones value): an encoder's short form, table or split into machine words
    has its boundary at some bit length, not necessarily at a power of two"""
    ks = set(range(1, n + 1))
    ks |= {b + d for e in range(1, 80) for b in (1 << e, 10 ** (e // 3)) for d in (-1, 0, 1)}
    for m in range(2, 301):
        base = 1 << (m - 1)
        ks |= {base + (base * j) // 8 for j in range(8)} | {(1 << m) - 1, base + 1, base + (base * 3) // 8 + 12345 % base}
    return sorted(k for k in ks if k > 0)


def sized_trace(spec, p):
    """int n: large_trace(n); "pub<N>": a run with N public values (interleaved with N // 3 private ones, values across
    the field) and a handful of constraints over the first, a middle and the last of them - counts around 255 / 256 / 65535
    are where one-byte and two-byte length fields of an encoder would overflow"""
    if isinstance(spec, int):
        return large_trace(spec, p)
    if spec.startswith("coef"):
        # every coefficient k, -k, p-k, p+k for k = 1..N and around the powers of two and ten above N, on a wire and on the constant:
        # an encoder that keeps a table (or a short form) of small coefficients has its boundary at some round number
        n = int(spec[4:])
        ks = sweep_scalars(n)
        tr = [["pub", 5], ["priv", 3], ["priv", -4]]
        for k in ks:
            tr.append(["con", ["add", ["mul", ["var", 0], k], ["mul", ["one"], k]], ["mul", ["var", 1], -k],
                       ["add", ["mul", ["var", 2], p - k], ["mul", ["one"], p + k]]])
        return tr
    n = int(spec[3:])
    tr = []
    nv = 0
    for k in range(n):
        tr.append(["pub", (k * 31 + 7) % 1009 if k % 5 else p - 1 - k])
        nv += 1
        if k % 3 == 0:
            tr.append(["priv", -(k + 2)])
            nv += 1
    for i, j, k in ((0, nv // 2, nv - 1), (nv - 1, 0, 1), (nv // 3, nv - 2, nv // 2)):
        tr.append(["con", ["add", ["var", i], ["one"]], ["sub", ["var", j], ["mul", ["var", k], 3]], ["mul", ["var", k], p - 2]])
    return tr


# ---------------------------------------------------------------------------
# hypothesis strategies for traces

def trace_strategy(st, p, max_vars=6, max_cons=5):
    # (round numbers and table boundaries - 1000, 4096, 5000, 65536 ... - are where lookup tables of pre-encoded coefficients end)
    magic = [100, 127, 128, 255, 256, 257, 999, 1000, 1001, 1023, 1024, 4095, 4096, 4999, 5000, 5001, 9999, 10000, 32767, 32768, 65535, 65536, 65537, 10 ** 6]
    scal = st.one_of(st.integers(-3, 3), st.sampled_from([0, 1, -1, p, p - 1, p + 1, -p, 2 * p + 3, 1 << 255, 1 << 256, (1 << 300) + 7,
                                                           (1 << 61) - 1, 1 << 61, 1 << 64, (1 << 64) + 1]),
                     st.sampled_from(magic), st.sampled_from(magic).map(lambda v: -v),
                     st.integers(0, p - 1))
    vals = st.one_of(st.integers(-5, 5), st.integers(0, p - 1),
                     st.sampled_from([0, 1, -1, p, p - 1, p + 1, -p - 2, 1 << 256, (1 << 256) + 5, (1 << 300) + 9, -(1 << 260)]))

    @st.composite
    def gen(draw):
        n = draw(st.integers(1, max_vars))
        calls = []
        nv = 0
        ncons = draw(st.integers(0, max_cons))

        def tree(depth):
            k = draw(st.integers(0, 8 if depth < 3 else 3))
            if k <= 1 and nv:
                return ["var", draw(st.integers(0, nv - 1))]
            if k == 2:
                return ["one"]
            if k == 3:
                return ["zero"] if draw(st.booleans()) or not nv else ["var", draw(st.integers(0, nv - 1))]
            if k <= 5:
                return [draw(st.sampled_from(["add", "sub"])), tree(depth + 1), tree(depth + 1)]
            if k == 6:
                return ["neg", tree(depth + 1)]
            return ["mul", tree(depth + 1), draw(scal)]
        made = []
        M61 = (1 << 61) - 1

        def slot():
            # now and then a combination already used, scaled by 1 + k*M for a machine-sized M: same wires in the same order,
            # coefficients equal modulo M (what a hash, a cache key or a fixed-width integer would see) but different mod p
            if made and draw(st.integers(0, 5)) == 0:
                t = draw(st.sampled_from(made))
                return ["mul", t, 1 + draw(st.sampled_from([M61, -M61, 2 * M61, 1 << 61, 1 << 64, 1 << 32, (1 << 31) - 1, 1 << 63]))]
            t = tree(0)
            made.append(t)
            return t
        for _ in range(n):
            calls.append([draw(st.sampled_from(["priv", "priv", "pub"])), draw(vals)])
            nv += 1
            while ncons and draw(st.integers(0, 2)) == 0:
                calls.append(["con", slot(), slot(), slot()])
                ncons -= 1
        for _ in range(ncons):
            calls.append(["con", slot(), slot(), slot()])
        return calls
    return gen()


STALE = b"\xa5STALE-ARTEFACT-FROM-AN-EARLIER-RUN" * 3000      # about 100 KB, longer than most outputs


def failed_prove(mod, tmp, files):
    """A proving step that fails half-way and is caught by the program: the last output file cannot be opened (its name is taken
    by a directory). Whatever the failed call encoded or cached must not show in a later, valid, prove()."""
    run = os.path.join(tmp, "failing-prove")
    os.makedirs(os.path.join(run, files[-1]), exist_ok=True)
    old = os.getcwd()
    os.chdir(run)
    try:
        try:
            mod.prove()
        except Exception:
            pass
    finally:
        os.chdir(old)
        import shutil
        shutil.rmtree(run, ignore_errors=True)


def prove_over_stale(mod, tmp, files):
    """prove() in a working directory other than the one the backend was imported in (scripts chdir into an output
    directory), where the output files already exist and are longer than what is about to be written (a previous, bigger
    run): prove() must write both files THERE and replace the old content. Also: no file descriptors left open.
    The files are then moved to `tmp` for the caller. Returns a message or None."""
    run = os.path.join(tmp, "cwd-at-prove")
    os.makedirs(run, exist_ok=True)
    for f in files:
        if os.path.exists(os.path.join(tmp, f)):
            os.remove(os.path.join(tmp, f))
        with open(os.path.join(run, f), "wb") as fh:
            fh.write(STALE)
    try:
        fds = set(os.listdir("/proc/self/fd"))
    except OSError:
        fds = None
    old = os.getcwd()
    os.chdir(run)
    try:
        mod.prove()
    finally:
        os.chdir(old)
    if fds is not None:
        after = set(os.listdir("/proc/self/fd"))
        leaked = []
        for fd in sorted(after - fds, key=int):
            try:
                leaked.append(os.readlink("/proc/self/fd/" + fd))
            except OSError:
                pass
        leaked = [x for x in leaked if any(x.endswith("/" + f) for f in files)]
        if leaked:
            return "prove() left its output open: %r" % leaked
    first = {}
    for f in files:
        data = open(os.path.join(run, f), "rb").read()
        if data == STALE:
            elsewhere = " (a file of that name appeared in the directory the backend was imported in)" if os.path.exists(os.path.join(tmp, f)) else ""
            return "%s was not written into the working directory of the prove() call%s" % (f, elsewhere)
        first[f] = data
    # the script is run again: the directory now holds the files of an earlier run of the SAME shape (same size, same header
    # and counts) in which one coefficient / value byte differs; what prove() leaves behind must again be this trace's files
    for f in files:
        d = first[f]
        if len(d) > 8:
            k = len(d) - 1 - (len(d) // 3)
            with open(os.path.join(run, f), "wb") as fh:
                fh.write(d[:k] + bytes([d[k] ^ 1]) + d[k + 1:])
    os.chdir(run)
    try:
        mod.prove()
    finally:
        os.chdir(old)
    for f in files:
        data = open(os.path.join(run, f), "rb").read()
        if data != first[f]:
            return ("%s: prove() run again over the files of an earlier run of the same shape (same length and header, one byte of "
                    "content different) left %d bytes that are not the %d bytes written into an empty directory" % (f, len(data), len(first[f])))
        os.replace(os.path.join(run, f), os.path.join(tmp, f))
    return None
