"""R1CS tools over recorder traces: evaluation, canonical form, witness-space search."""
import hashlib
import json


def lc_value(d, vals, p):
    return sum(c * vals[v] for v, c in d.items()) % p


def evaluate(trace_or_cons, vals=None, p=None):
    """indices of constraints A*B-C != 0 (mod p)"""
    if isinstance(trace_or_cons, dict):
        cons, vals, p = trace_or_cons["cons"], trace_or_cons["vals"], trace_or_cons["p"]
    else:
        cons = trace_or_cons
    bad = []
    for i, (a, b, c) in enumerate(cons):
        if (lc_value(a, vals, p) * lc_value(b, vals, p) - lc_value(c, vals, p)) % p:
            bad.append(i)
    return bad


def canon_lc(d, p):
    return tuple(sorted((v, c % p) for v, c in d.items() if c % p))


def canonical(trace, results=()):
    """value-independent description of a trace: kinds in order, constraints with
    coefficients mod p (zero terms dropped), wire expressions of results"""
    p = trace["p"]
    return (
        tuple(trace["kinds"]),
        tuple((canon_lc(a, p), canon_lc(b, p), canon_lc(c, p)) for a, b, c in trace["cons"]),
        tuple(canon_lc(r, p) for r in results),
    )


def digest(obj):
    return hashlib.sha1(json.dumps(obj, sort_keys=True, default=str).encode()).hexdigest()[:16]


# ---------------------------------------------------------------------------
# modular helpers

def _legendre(a, p):
    return pow(a, (p - 1) // 2, p)


def sqrt_mod(a, p):
    """all square roots of a mod odd prime p"""
    a %= p
    if a == 0:
        return [0]
    if p == 2:
        return [a]
    if _legendre(a, p) != 1:
        return []
    if p % 4 == 3:
        r = pow(a, (p + 1) // 4, p)
        return sorted({r, p - r})
    # Tonelli-Shanks
    q, s = p - 1, 0
    while q % 2 == 0:
        q //= 2
        s += 1
    z = 2
    while _legendre(z, p) != p - 1:
        z += 1
    m, c, t, r = s, pow(z, q, p), pow(a, q, p), pow(a, (q + 1) // 2, p)
    while t != 1:
        i, t2 = 0, t
        while t2 != 1:
            t2 = t2 * t2 % p
            i += 1
        b = pow(c, 1 << (m - i - 1), p)
        m, c = i, b * b % p
        t, r = t * c % p, r * b % p
    return sorted({r, p - r})


def quad_roots(qa, qb, qc, p):
    """roots of qa x^2 + qb x + qc = 0 mod p; None means every x is a root"""
    qa, qb, qc = qa % p, qb % p, qc % p
    if qa == 0:
        if qb == 0:
            return None if qc == 0 else []
        return [(-qc) * pow(qb, p - 2, p) % p]
    if p == 2:
        return [x for x in (0, 1) if (qa * x * x + qb * x + qc) % 2 == 0]
    disc = (qb * qb - 4 * qa * qc) % p
    inv2a = pow(2 * qa, p - 2, p)
    return sorted({(-qb + s) * inv2a % p for s in sqrt_mod(disc, p)})


# ---------------------------------------------------------------------------
# witness-space search

class Budget(Exception):
    pass


class Search:
    """Enumerate assignments to `free` variables satisfying `cons` with `fixed` pinned.

    Complete (every satisfying assignment is produced, don't-care variables
    reported as such) whenever branching only happened over all of F_p, which is
    the case in small fields; in big fields branching uses `candidates(var)` and
    self.complete turns False the first time that is needed.
    """

    def __init__(self, cons, p, fixed, free, budget=200000, candidates=None, small_limit=5000):
        self.p = p
        self.cons = [(dict(a), dict(b), dict(c)) for a, b, c in cons]
        self.fixed = dict(fixed)
        self.free = list(free)
        self.budget = budget
        self.nodes = 0
        self.complete = True
        self.candidates = candidates
        self.small = p <= small_limit

    def _reduce(self, con, asg):
        p = self.p
        parts = []
        unknowns = set()
        for d in con:
            k0, ku = 0, {}
            for v, c in d.items():
                if v in asg:
                    k0 += c * asg[v]
                else:
                    cc = c % p
                    if cc:
                        ku[v] = (ku.get(v, 0) + cc) % p
            ku = {v: c for v, c in ku.items() if c}
            parts.append((k0 % p, ku))
            unknowns.update(ku)
        (a0, au), (b0, bu), (c0, cu) = parts
        if not au or not bu:
            # linear in the unknowns
            lin = {}
            if not au:
                for v, c in bu.items():
                    lin[v] = a0 * c % p
            else:
                for v, c in au.items():
                    lin[v] = b0 * c % p
            for v, c in cu.items():
                lin[v] = (lin.get(v, 0) - c) % p
            lin = {v: c for v, c in lin.items() if c}
            const = (a0 * b0 - c0) % p
            if not lin:
                return ("check", const == 0)
            if len(lin) == 1:
                (v, c), = lin.items()
                return ("roots", v, [(-const) * pow(c, p - 2, p) % p])
            return ("multi", set(lin))
        if len(unknowns) == 1:
            (u,) = unknowns
            a1, b1, c1 = au.get(u, 0), bu.get(u, 0), cu.get(u, 0)
            roots = quad_roots(a1 * b1, a0 * b1 + a1 * b0 - c1, a0 * b0 - c0, p)
            if roots is None:
                return ("check", True)
            return ("roots", u, roots)
        return ("multi", unknowns)

    def solutions(self):
        """yield (assignment dict incl. fixed, dontcare var list)"""
        asg = dict(self.fixed)
        yield from self._rec(asg)

    def _rec(self, asg):
        self.nodes += 1
        if self.nodes > self.budget:
            raise Budget()
        best = None
        multi = {}
        for con in self.cons:
            r = self._reduce(con, asg)
            if r[0] == "check":
                if not r[1]:
                    return
            elif r[0] == "roots":
                if not r[2]:
                    return
                if best is None or len(r[2]) < len(best[2]):
                    best = r
            else:
                for v in r[1]:
                    multi[v] = multi.get(v, 0) + 1
        if best is not None:
            u = best[1]
            for root in best[2]:
                asg[u] = root
                yield from self._rec(asg)
            del asg[u]
            return
        if not multi:
            dontcare = [v for v in self.free if v not in asg]
            yield dict(asg), dontcare
            return
        u = max(sorted(multi), key=lambda v: multi[v])
        if self.small:
            dom = range(self.p)
        else:
            self.complete = False
            dom = sorted({x % self.p for x in self.candidates(u)})
        for x in dom:
            asg[u] = x
            yield from self._rec(asg)
        del asg[u]


def forced(cons, p, fixed):
    """Unit propagation only: the assignments that hold in EVERY satisfying assignment extending
    `fixed` (single-root unit constraints, repeated to a fixpoint). Returns dict, or None on contradiction."""
    s = Search(cons, p, fixed, [])
    asg = dict(fixed)
    todo = list(s.cons)
    progress = True
    while progress:
        progress = False
        rest = []
        for con in todo:
            r = s._reduce(con, asg)
            if r[0] == "check":
                if not r[1]:
                    return None
            elif r[0] == "roots":
                if not r[2]:
                    return None
                if len(r[2]) == 1:
                    asg[r[1]] = r[2][0]
                    progress = True
                else:
                    rest.append(con)
            else:
                rest.append(con)
        todo = rest
    return asg


def solve_all(cons, p, fixed, free, limit=64, **kw):
    """returns (list of (assignment, dontcare), status) with status in
    'complete' | 'partial' (stopped at limit) | 'heuristic' | 'budget'"""
    s = Search(cons, p, fixed, free, **kw)
    out = []
    try:
        for sol in s.solutions():
            out.append(sol)
            if len(out) >= limit:
                return out, "partial", s.nodes
    except Budget:
        return out, "budget", s.nodes
    return out, ("complete" if s.complete else "heuristic"), s.nodes


def verify(cons, p, asg):
    """plain re-evaluation of every constraint under a total assignment (dict or list)"""
    for i, (a, b, c) in enumerate(cons):
        va = sum(k * asg[v] for v, k in a.items())
        vb = sum(k * asg[v] for v, k in b.items())
        vc = sum(k * asg[v] for v, k in c.items())
        if (va * vb - vc) % p:
            return False
    return True
